import JP.World.Pool

/-!
# World model, part 2: interleaving semantics and footprints

A system state is the contents of the three pools plus the set of keys stored in the two
`sync.Map` caches plus N threads, each a per-call program (`Prog`, see `World.Pool`) or a
sequence of them.  One `Step` is one event of one thread:

* `get`: the pool hands out ANY of its objects, removing it from the pool (exclusive ownership
  until it is put back), or a freshly allocated zero object (`sync.Pool` may be empty, and may
  drop objects at any time: `drop*`);
* `put`: the object, in the state the program says it is left in, goes back to the pool;
* `cache`: `LoadOrStore`; `tau`: private computation.

The result of a finished thread is whatever its program computed from the leftovers it met.

Footprints (`Ev`, `Prog.trace`): the memory events of a call at the granularity of whole pooled
objects.  The trace of a program is derived from its structure: an acquisition names the object
the pool handed out (`idOf`), every `put` is preceded by a write to the object put (standing for
all the field writes of the lifecycle, facts S1–S3, E1–E4, D1–D4 of `World.Pool`), `tau` is a
write to call-private memory, `cache` goes through the `sync.Map` API.  Releases are matched to
acquisitions last-in-first-out per pool, as the `defer`s of nested calls are.

## Go-level facts this model ASSUMES (in addition to those listed in `World.Pool`)

* P1 `sync.Pool.Get` never returns an object that another goroutine obtained from `Get` and has
  not yet `Put` back; `Put`/`Get` of the same object synchronise (the Go memory model's
  guarantee for `sync.Pool`).
* P2 a pooled object is reachable only through the pool and through the call that acquired it:
  no entry point stores `d`, `e`, `scan` (or a pointer into them) anywhere that outlives the
  call.  ONE EXCEPTION found in the source: `d.lastKeys` and the `keys` slice handed to
  `partialDoc.keys` share a backing array, which `partialDoc.set`/`remove` later write (append
  in place, `append(keys[0:idx], keys[idx+1:]...)`).  The elements of that array are read through
  `d.lastKeys` only by a call that copies the slice header into a `partialDoc` whose `obj` is
  nil, and such a `partialDoc` never reads or writes `keys` (fact L2 and the theorems
  `C09.stale_keys_*`): the aliasing is never exercised.
* P3 every write a call performs is to a pooled object it holds, to memory it allocated itself,
  or inside `sync.Pool`/`sync.Map`; the caller's byte slices, `Patch` (its `*json.RawMessage`
  values are shared with nodes of the tree being edited, read only) and `*ApplyOptions` are only
  read; package variables are only read (fact L4).
* P4 nested entry-point calls release in last-in-first-out order (`defer`).

NOT covered: that the Go code's real memory accesses are those of the traces (facts above,
pool poisoning, read-only input pages and the race detector on executed schedules are the
evidence for that); data-race freedom under the Go memory model; writes to caller memory.
-/

namespace JP
namespace World

/-! ## 1. Systems and steps -/

structure Pools where
  dec : List DecState := []
  enc : List EncState := []
  scan : List ScanState := []
  /-- keys present in `encoderCache`/`fieldCache` -/
  cache : List Nat := []
  deriving Inhabited

/-- the invariant of everything that sits in a pool -/
def Pools.Inv (P : Pools) : Prop := (∀ d ∈ P.dec, d.Inv) ∧ (∀ e ∈ P.enc, e.Inv)

structure Sys (α : Type) where
  pools : Pools
  threads : List (Prog α)

inductive Step {α : Type} : Sys α → Sys α → Prop
  | getDecPooled {P : Pools} {ts : List (Prog α)} (i j : Nat) {k : DecState → Prog α} {s : DecState} :
      ts[i]? = some (.getDec k) → P.dec[j]? = some s →
      Step ⟨P, ts⟩ ⟨{ P with dec := P.dec.eraseIdx j }, ts.set i (k s)⟩
  | getDecFresh {P : Pools} {ts : List (Prog α)} (i : Nat) {k : DecState → Prog α} :
      ts[i]? = some (.getDec k) → Step ⟨P, ts⟩ ⟨P, ts.set i (k DecState.zero)⟩
  | putDec {P : Pools} {ts : List (Prog α)} (i : Nat) {s : DecState} {k : Prog α} :
      ts[i]? = some (.putDec s k) → Step ⟨P, ts⟩ ⟨{ P with dec := s :: P.dec }, ts.set i k⟩
  | getEncPooled {P : Pools} {ts : List (Prog α)} (i j : Nat) {k : EncState → Prog α} {s : EncState} :
      ts[i]? = some (.getEnc k) → P.enc[j]? = some s →
      Step ⟨P, ts⟩ ⟨{ P with enc := P.enc.eraseIdx j }, ts.set i (k s)⟩
  | getEncFresh {P : Pools} {ts : List (Prog α)} (i : Nat) {k : EncState → Prog α} :
      ts[i]? = some (.getEnc k) → Step ⟨P, ts⟩ ⟨P, ts.set i (k EncState.zero)⟩
  | putEnc {P : Pools} {ts : List (Prog α)} (i : Nat) {s : EncState} {k : Prog α} :
      ts[i]? = some (.putEnc s k) → Step ⟨P, ts⟩ ⟨{ P with enc := s :: P.enc }, ts.set i k⟩
  | getScanPooled {P : Pools} {ts : List (Prog α)} (i j : Nat) {k : ScanState → Prog α} {s : ScanState} :
      ts[i]? = some (.getScan k) → P.scan[j]? = some s →
      Step ⟨P, ts⟩ ⟨{ P with scan := P.scan.eraseIdx j }, ts.set i (k s)⟩
  | getScanFresh {P : Pools} {ts : List (Prog α)} (i : Nat) {k : ScanState → Prog α} :
      ts[i]? = some (.getScan k) → Step ⟨P, ts⟩ ⟨P, ts.set i (k ScanState.zero)⟩
  | putScan {P : Pools} {ts : List (Prog α)} (i : Nat) {s : ScanState} {k : Prog α} :
      ts[i]? = some (.putScan s k) → Step ⟨P, ts⟩ ⟨{ P with scan := s :: P.scan }, ts.set i k⟩
  | cache {P : Pools} {ts : List (Prog α)} (i : Nat) {key : Nat} {k : Prog α} :
      ts[i]? = some (.cache key k) →
      Step ⟨P, ts⟩ ⟨{ P with cache := if P.cache.contains key then P.cache else key :: P.cache }, ts.set i k⟩
  | tau {P : Pools} {ts : List (Prog α)} (i : Nat) {k : Prog α} :
      ts[i]? = some (.tau k) → Step ⟨P, ts⟩ ⟨P, ts.set i k⟩
  /-- the runtime may drop pooled objects at any time -/
  | dropDec {P : Pools} {ts : List (Prog α)} (j : Nat) : Step ⟨P, ts⟩ ⟨{ P with dec := P.dec.eraseIdx j }, ts⟩
  | dropEnc {P : Pools} {ts : List (Prog α)} (j : Nat) : Step ⟨P, ts⟩ ⟨{ P with enc := P.enc.eraseIdx j }, ts⟩
  | dropScan {P : Pools} {ts : List (Prog α)} (j : Nat) : Step ⟨P, ts⟩ ⟨{ P with scan := P.scan.eraseIdx j }, ts⟩

inductive Steps {α : Type} : Sys α → Sys α → Prop
  | refl (S : Sys α) : Steps S S
  | step {S S' S'' : Sys α} : Step S S' → Steps S' S'' → Steps S S''

/-- one goroutine executing a list of calls one after the other -/
def seqP : List Call → Prog (List Res)
  | [] => .ret []
  | c :: cs => c.prog.bind fun r => (seqP cs).bind fun rs => .ret (r :: rs)

/-- a deterministic scheduler for executing the model: always thread `i`'s next event, the pool's
most recently put object (or a fresh one when the pool is empty) -/
def stepThread {α : Type} (S : Sys α) (i : Nat) : Option (Sys α) :=
  match S.threads[i]? with
  | some (.getDec k) =>
    (match S.pools.dec with
     | s :: rest => some ⟨{ S.pools with dec := rest }, S.threads.set i (k s)⟩
     | [] => some ⟨S.pools, S.threads.set i (k DecState.zero)⟩)
  | some (.putDec s k) => some ⟨{ S.pools with dec := s :: S.pools.dec }, S.threads.set i k⟩
  | some (.getEnc k) =>
    (match S.pools.enc with
     | s :: rest => some ⟨{ S.pools with enc := rest }, S.threads.set i (k s)⟩
     | [] => some ⟨S.pools, S.threads.set i (k EncState.zero)⟩)
  | some (.putEnc s k) => some ⟨{ S.pools with enc := s :: S.pools.enc }, S.threads.set i k⟩
  | some (.getScan k) =>
    (match S.pools.scan with
     | s :: rest => some ⟨{ S.pools with scan := rest }, S.threads.set i (k s)⟩
     | [] => some ⟨S.pools, S.threads.set i (k ScanState.zero)⟩)
  | some (.putScan s k) => some ⟨{ S.pools with scan := s :: S.pools.scan }, S.threads.set i k⟩
  | some (.cache key k) =>
    some ⟨{ S.pools with cache := if S.pools.cache.contains key then S.pools.cache else key :: S.pools.cache },
          S.threads.set i k⟩
  | some (.tau k) => some ⟨S.pools, S.threads.set i k⟩
  | _ => none

/-- run a schedule (a list of thread indices); a thread that cannot move is skipped -/
def runSchedule {α : Type} (S : Sys α) : List Nat → Sys α
  | [] => S
  | i :: is => runSchedule ((stepThread S i).getD S) is

def resultOf {α : Type} (S : Sys α) (i : Nat) : Option α :=
  match S.threads[i]? with
  | some (.ret a) => some a
  | _ => none

/-! ## 2. Footprints -/

inductive PoolId where
  | dec | enc | scan
  deriving Repr, DecidableEq, Inhabited

inductive Loc where
  /-- (any field of) the pooled object `o` of pool `p` -/
  | pooled (p : PoolId) (o : Nat)
  /-- memory allocated by the call itself (the tree of nodes, buffers, results) -/
  | priv
  /-- the caller's byte slices, `Patch`, `*ApplyOptions` -/
  | callerIn (arg : Nat)
  /-- a package-level variable -/
  | global (name : Nat)
  /-- a pooled object the call does not hold -/
  | unowned (p : PoolId)
  deriving Repr, DecidableEq, Inhabited

inductive Ev where
  | acquire (p : PoolId) (o : Nat)
  | release (p : PoolId) (o : Nat)
  | read (l : Loc)
  | write (l : Loc)
  /-- an operation of `sync.Map` -/
  | sync (key : Nat)
  deriving Repr, DecidableEq, Inhabited

/-- the memory events of a program run against the leftovers `L`, the `n`-th acquisition from
pool `p` being handed object `idOf p n`; `hd he hs` = the objects currently held, innermost first -/
def Prog.traceFrom {α : Type} (L : Leftovers) (idOf : PoolId → Nat → Nat) :
    Prog α → Nat → Nat → Nat → List Nat → List Nat → List Nat → List Ev
  | .ret _, _, _, _, _, _, _ => []
  | .getDec k, i, j, l, hd, he, hs =>
    .acquire .dec (idOf .dec i) :: (k (L.dec i)).traceFrom L idOf (i + 1) j l (idOf .dec i :: hd) he hs
  | .putDec _ k, i, j, l, hd, he, hs =>
    (match hd with
     | o :: hd' => .write (.pooled .dec o) :: .release .dec o :: k.traceFrom L idOf i j l hd' he hs
     | [] => .write (.unowned .dec) :: k.traceFrom L idOf i j l [] he hs)
  | .getEnc k, i, j, l, hd, he, hs =>
    .acquire .enc (idOf .enc j) :: (k (L.enc j)).traceFrom L idOf i (j + 1) l hd (idOf .enc j :: he) hs
  | .putEnc _ k, i, j, l, hd, he, hs =>
    (match he with
     | o :: he' => .write (.pooled .enc o) :: .release .enc o :: k.traceFrom L idOf i j l hd he' hs
     | [] => .write (.unowned .enc) :: k.traceFrom L idOf i j l hd [] hs)
  | .getScan k, i, j, l, hd, he, hs =>
    .acquire .scan (idOf .scan l) :: (k (L.scan l)).traceFrom L idOf i j (l + 1) hd he (idOf .scan l :: hs)
  | .putScan _ k, i, j, l, hd, he, hs =>
    (match hs with
     | o :: hs' => .write (.pooled .scan o) :: .release .scan o :: k.traceFrom L idOf i j l hd he hs'
     | [] => .write (.unowned .scan) :: k.traceFrom L idOf i j l hd he [])
  | .cache key k, i, j, l, hd, he, hs => .sync key :: k.traceFrom L idOf i j l hd he hs
  | .tau k, i, j, l, hd, he, hs => .write .priv :: k.traceFrom L idOf i j l hd he hs

/-- the footprint of a call: it reads its arguments and the two option variables, then does
what its program does -/
def Call.trace (c : Call) (L : Leftovers) (idOf : PoolId → Nat → Nat) : List Ev :=
  .read (.callerIn 0) :: .read (.callerIn 1) :: .read (.global 0) :: .read (.global 1) ::
    c.prog.traceFrom L idOf 0 0 0 [] [] []

/-- every write of the trace is to call-private memory or to a pooled object that is held at
that moment (acquired earlier in this trace, not yet released); nothing is released that is
not held -/
def wellOwned : List (PoolId × Nat) → List Ev → Bool
  | _, [] => true
  | held, .acquire p o :: es => wellOwned ((p, o) :: held) es
  | held, .release p o :: es => held.contains (p, o) && wellOwned (held.erase (p, o)) es
  | held, .write (.pooled p o) :: es => held.contains (p, o) && wellOwned held es
  | held, .write .priv :: es => wellOwned held es
  | _, .write _ :: _ => false
  | held, .read _ :: es => wellOwned held es
  | held, .sync _ :: es => wellOwned held es

/-! ### interleavings of traces -/

/-- an event tagged with the thread that performs it -/
abbrev TEv := Nat × Ev

/-- who holds what after a global trace -/
def holdersAfter : List TEv → List (Nat × PoolId × Nat) → List (Nat × PoolId × Nat)
  | [], h => h
  | (t, .acquire p o) :: es, h => holdersAfter es ((t, p, o) :: h)
  | (t, .release p o) :: es, h => holdersAfter es (h.erase (t, p, o))
  | _ :: es, h => holdersAfter es h

/-- the pool discipline (fact P1): an object is handed out only when nobody holds it -/
def exclusive : List TEv → List (Nat × PoolId × Nat) → Bool
  | [], _ => true
  | (t, .acquire p o) :: es, h => !(h.any fun x => x.2 = (p, o)) && exclusive es ((t, p, o) :: h)
  | (t, .release p o) :: es, h => exclusive es (h.erase (t, p, o))
  | _ :: es, h => exclusive es h

/-- every thread's own events form a well-owned trace -/
def threadsWellOwned (n : Nat) (tr : List TEv) : Bool :=
  (List.range n).all fun t => wellOwned [] ((tr.filter fun e => e.1 = t).map Prod.snd)

/-- the accesses of thread `t` to a pooled object happen while `t` holds it and nobody else does -/
def noConflict : List TEv → List (Nat × PoolId × Nat) → Bool
  | [], _ => true
  | (t, .acquire p o) :: es, h => noConflict es ((t, p, o) :: h)
  | (t, .release p o) :: es, h => noConflict es (h.erase (t, p, o))
  | (t, .write (.pooled p o)) :: es, h =>
    (h.all fun x => x.2 = (p, o) → x.1 = t) && (h.contains (t, p, o)) && noConflict es h
  | (_, .write .priv) :: es, h => noConflict es h
  | (_, .write _) :: _, _ => false
  | _ :: es, h => noConflict es h

end World
end JP
