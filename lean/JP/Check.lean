import JP.Impl.Merge
import JP.Spec.Rfc6902
import JP.Spec.Rfc7396
import JP.Spec.PatchDoc

/-!
# Property predicates (`holds`) and observables

Everything the run-time check evaluates on what the real library returned is defined
here, as executable Lean functions, so that the theorems of `JP/Props` and the check talk
about the same predicates.  `Obs` is the canonical observable of one call.
-/

namespace JP

/-- what a call returned, as the harness reports it -/
inductive Obs where
  | ok (out : Bytes)
  | err (flag : Char)         -- 'M','T','I','V','C','X','D','P','Y' or '-' (no sentinel)
  | panic
  | hang
  | derr                      -- DecodePatch rejected the patch text
  deriving Repr, DecidableEq, Inhabited

namespace Obs
def isOk : Obs → Bool
  | .ok _ => true
  | _ => false
def isErr : Obs → Bool
  | .err _ => true
  | _ => false
def bad : Obs → Bool
  | .panic => true
  | .hang => true
  | _ => false
end Obs

def errFlag : Impl.Err → Char
  | .missing => 'M' | .testFailed => 'T' | .invalidIndex => 'I' | .invalid => 'V'
  | .copySize => 'C' | .expectedObject => 'X' | .badDoc => 'D' | .badPatch => 'P'
  | .badMergeTypes => 'Y' | .other => '-'

def obsOf : Impl.Outcome Bytes → Obs
  | .ok b => .ok b
  | .err e => .err (errFlag e)
  | .panic => .panic

/-- verdict of one property on one case -/
inductive Verdict where
  | ok | unspec | viol (clause : String)
  deriving Repr, DecidableEq, Inhabited

def Verdict.and : Verdict → Verdict → Verdict
  | .viol c, _ => .viol c
  | _, .viol c => .viol c
  | .unspec, v => v
  | v, .unspec => v
  | .ok, .ok => .ok

/-! ### from decoded operations to the specification's operations -/

def specKind (k : Bytes) : Option Spec.OpKind :=
  if k = ascii "add" then some .add
  else if k = ascii "remove" then some .remove
  else if k = ascii "replace" then some .replace
  else if k = ascii "move" then some .move
  else if k = ascii "copy" then some .copy
  else if k = ascii "test" then some .test
  else none

def specOp (op : Impl.Op) : Option Spec.Op :=
  match specKind op.kind with
  | none => none
  | some k => some { kind := k, path := op.path, frm := op.frm.getD [], value := op.value.map Cst.valueOf }

def specOps : List Impl.Op → Option (List Spec.Op)
  | [] => some []
  | op :: ops =>
    match specOp op, specOps ops with
    | some s, some ss => some (s :: ss)
    | _, _ => none

/-- the patch text as the specification reads it (independent of `Impl.decodePatch`:
only `parseCst`, `valueOf` and the C11 oracle are used) -/
def specPatch (patch : Bytes) : Option (List Spec.Op) :=
  match parseCst patch with
  | some (.arr xs) =>
    if (Cst.valueOf (.arr xs) |> Spec.wellFormedPatch) then
      xs.mapM fun c =>
        match Spec.viewOp c.valueOf with
        | some v =>
          (specKind v.kind).map fun k =>
            ({ kind := k, path := v.path, frm := v.frm.getD [], value := v.value } : Spec.Op)
        | none => none
    else none
  | _ => none

/-! ### copy sizes as the implementation spells them (C12: the one quantity the
value-level specification cannot know) -/

/-- size `deepCopy` reports for the copy `op` in state `r` (0 when the copy fails before) -/
def copySizeOf (o : Impl.Opts) (r : Impl.Root) (op : Impl.Op) : Nat :=
  match op.frm with
  | none => 0
  | some frm =>
    let after (r : Impl.Root) {α} (w : Impl.Walk α) : Option Impl.Root :=
      match w with
      | .done con _ => some { r with con := con }
      | .doneSelf s _ => some { r with self := s }
      | _ => none
    match after r (if frm = [] then (if Impl.isNullN r.con then .fail .invalid else (.done r.con r.con : Impl.Walk Impl.Node)) else Impl.copySource o r frm) with
    | some r1 =>
      match after r1 (Impl.withPath o r1 op.path (fun _ con _ => (.ok (con, ()) : Impl.Outcome (Impl.Node × Unit)))) with
      | some r2 =>
        let val : Impl.Node :=
          if frm = [] then r2.con
          else match Impl.copySource o r2 frm with
            | .done _ v' => v'
            | .doneSelf _ v' => v'
            | _ => .nil
        (Impl.deepCopy o.esc val).2
      | none => 0
    | none => 0

/-- sizes per operation index, following the implementation model's own run -/
def copySizes (o : Impl.Opts) : Impl.Root → Int → List Impl.Op → List Nat
  | _, _, [] => []
  | r, acc, op :: ops =>
    let sz := if op.kind = ascii "copy" then copySizeOf o r op else 0
    match Impl.applyOp o r acc op with
    | .ok (r', acc') => sz :: copySizes o r' acc' ops
    | _ => [sz]

def specOpts (o : Impl.Opts) : Spec.Opts :=
  { neg := o.neg, allowMissing := o.allow, ensure := o.ensure, limit := o.limit.toNat }

/-- sizes for the specification: the implementation model's spelling, run without a
limit so that every copy that is reached has its size -/
def sizesFor (o : Impl.Opts) (doc : Bytes) (ops : List Impl.Op) : List Nat :=
  match parseCst doc with
  | some c =>
    match Impl.decodeRoot c with
    | .ok con => copySizes { o with limit := 0 } { con := con, self := .raw c, selfCR := c.isArr && !Impl.goIsArray doc } 0 ops
    | _ => []
  | none => []

/-- `Spec.apply` on the texts of one APPLY case -/
def specApply (o : Impl.Opts) (doc patch : Bytes) : Spec.Outcome :=
  match parseValueOf doc, specPatch patch with
  | some d, some sops =>
    -- repeated member names: RFC 8259 leaves their meaning open; outside every property's domain
    if !(d.noDup && sops.all fun op => (op.value.map Value.noDup).getD true) then .unspec else
    let sizes : List Nat := match Impl.decodePatch patch with
      | .ok ops => sizesFor o doc ops
      | _ => []
    Spec.apply (specOpts o) (fun i => sizes.getD i 0) d sops
  | _, _ => .unspec

/-! ### C01 / C05 / C08 / C12 on one APPLY case -/

/-- C01: success exactly when the specification succeeds, result structurally equal -/
def c01 (s : Spec.Outcome) (obs : Obs) : Verdict :=
  match s with
  | .unspec => .unspec
  | .ok v =>
    match obs with
    | .ok out =>
      match parseValueOf out with
      | some v' => if Value.eqv v v' then .ok else .viol "value"
      | none => .viol "output-not-json"
    | _ => .viol "should-succeed"
  | .fail _ _ =>
    match obs with
    | .err _ => .ok
    | _ => .viol "should-fail"

/-- C05: member order and literals — the ordered specification result, exactly -/
def c05 (s : Spec.Outcome) (obs : Obs) : Verdict :=
  match s with
  | .ok v =>
    match obs with
    | .ok out =>
      match parseValueOf out with
      | some v' => if Value.beq v v' then .ok else .viol "order-or-literal"
      | none => .viol "output-not-json"
    | _ => .unspec
  | _ => .unspec

/-- C08: error classes; `trunc` = the same call with the patch cut after the first failing
operation (harness-side), `nilDoc` = the returned document was nil -/
def c08 (s : Spec.Outcome) (obs : Obs) (trunc : Option Obs) (nilDoc : Bool) : Verdict :=
  match s with
  | .unspec => .unspec
  | .ok _ => (match obs with | .err _ => .viol "error-on-applicable-patch" | _ => .ok)
  | .fail _ c =>
    match obs with
    | .err f =>
      let v1 : Verdict := if nilDoc then .ok else .viol "document-with-error"
      let v2 : Verdict := if (f = 'T') = (c = .testUnequal) then .ok else .viol "ErrTestFailed"
      let v3 : Verdict := if (f = 'C') = (c = .copyLimit) then .ok else .viol "AccumulatedCopySizeError"
      let v4 : Verdict :=
        if c = .absentMember ∨ c = .parentUnreachable then (if f = 'M' then .ok else .viol "ErrMissing") else .ok
      let v5 : Verdict := match trunc with
        | some t => if t = obs then .ok else .viol "suffix-matters"
        | none => .ok
      v1.and (v2.and (v3.and (v4.and v5)))
    | _ => .viol "should-fail"

/-- C12: the copy-size error occurs exactly where the running total says -/
def c12 (s : Spec.Outcome) (obs : Obs) : Verdict :=
  match s with
  | .unspec => .unspec
  | .fail _ .copyLimit => (match obs with | .err 'C' => .ok | _ => .viol "limit-not-enforced")
  | _ => (match obs with | .err 'C' => .viol "limit-error-within-limit" | _ => .ok)

/-- C12 judged on OBSERVED sizes: `sizes` = for each copy operation, in order and as far as the harness could
measure it, the number of bytes that stand at the copy's destination in the output of the patch cut after that
operation and applied without a limit (`none` = the copied value is `null`, which may count as 0 or 4).  No
specification of RFC 6902 is involved, so the clause also speaks on texts with repeated member names. -/
def c12sizesGo (limit : Int) : Nat → List (Option Nat) → Obs → Verdict
  | _, [], obs => (match obs with | .err 'C' => .viol "limit-error-within-observed-sizes" | _ => .ok)
  | _, none :: _, _ => .unspec
  | acc, some n :: rest, obs =>
    if limit < ((acc + n : Nat) : Int) then
      (match obs with | .err 'C' => .ok | _ => .viol "limit-not-enforced-on-observed-sizes")
    else c12sizesGo limit (acc + n) rest obs

/-- entries in order of execution: `some n` = a copy worth `n` bytes, `none` = a copied `null` (0 or 4) or a copy
that could not be measured; the list is complete up to the point where the patch fails for another reason -/
def c12sizes (limit : Int) (sizes : List (Option Nat)) (obs : Obs) : Verdict :=
  if limit ≤ 0 then .unspec else c12sizesGo limit 0 sizes obs

/-! ### C15: bytes -/

def hasRawHtml : Bytes → Bool
  | [] => false
  | c :: cs =>
    c = 60 || c = 62 || c = 38
      || (c = 0xE2 && (cs.take 2 == [0x80, 0xA8] || cs.take 2 == [0x80, 0xA9]))
      || hasRawHtml cs

/-- the code points among `<`, `>`, `&`, U+2028, U+2029 that a text spells as `\\uXXXX`
escapes (either letter case); `\\\\` and other two-byte escapes are stepped over -/
def htmlEscapes : Nat → Bytes → List Nat
  | 0, _ => []
  | _ + 1, [] => []
  | fuel + 1, c :: cs =>
    if c = 92 then
      match cs with
      | 117 :: rest =>
        (match hex4 rest with
         | some v => if v = 0x3c ∨ v = 0x3e ∨ v = 0x26 ∨ v = 0x2028 ∨ v = 0x2029 then v :: htmlEscapes fuel (rest.drop 4)
                     else htmlEscapes fuel (rest.drop 4)
         | none => htmlEscapes fuel rest)
      | _ :: rest => htmlEscapes fuel rest
      | [] => []
    else htmlEscapes fuel cs

def rawLineSeps : Bytes → List Nat
  | [] => []
  | c :: cs =>
    (if c = 0xE2 ∧ cs.take 2 = [0x80, 0xA8] then [0x2028]
     else if c = 0xE2 ∧ cs.take 2 = [0x80, 0xA9] then [0x2029] else []) ++ rawLineSeps cs

/-- EscapeHTML off: every HTML-class escape in the output is already spelled as an escape
in an input; U+2028/U+2029 may also come from a raw occurrence, because the encoder (like
the standard library's) always escapes those two when it re-quotes a string -/
def noNewEscapes (inputs out : Bytes) : Bool :=
  let have_ := htmlEscapes (inputs.length + 1) inputs ++ rawLineSeps inputs
  (htmlEscapes (out.length + 1) out).all fun c => have_.contains c

/-- valid UTF-8 (Go's `utf8.Valid`) -/
def validUtf8 : Nat → Bytes → Bool
  | 0, _ => false
  | _ + 1, [] => true
  | fuel + 1, b :: bs =>
    let (r, size) := decodeRune (b :: bs)
    if r = runeError ∧ size = 1 then false else validUtf8 fuel ((b :: bs).drop size)

def isValidUtf8 (bs : Bytes) : Bool := validUtf8 (bs.length + 1) bs

/-- C15 on one output: well-formed, reads back, escaping on ⇒ clean; UTF-8 kept -/
def c15out (esc : Bool) (inputsUtf8 : Bool) (out : Bytes) : Verdict :=
  match parseCst out with
  | none => .viol "output-not-json"
  | some _ =>
    if esc && hasRawHtml out then .viol "raw-html-char-with-escaping-on"
    else if inputsUtf8 && !isValidUtf8 out then .viol "output-not-utf8"
    else .ok

mutual
/-- some member name is not spelled the way the encoder (with this escaping flag) would
spell it; such names are re-spelled when the object holding them is parsed and printed -/
def keyRespelled (esc : Bool) : Cst → Bool
  | .arr xs => keyRespelledL esc xs
  | .obj ms => keyRespelledM esc ms
  | _ => false
def keyRespelledL (esc : Bool) : List Cst → Bool
  | [] => false
  | x :: xs => keyRespelled esc x || keyRespelledL esc xs
def keyRespelledM (esc : Bool) : List (Bytes × Cst) → Bool
  | [] => false
  | (k, v) :: ms =>
    quoteBody esc (unquote k) != (if esc then escBody k else k) || keyRespelled esc v || keyRespelledM esc ms
end

/-- trigger class of the known finding on C15's last clause -/
def keyNotEncoderSpelled (esc : Bool) (doc patch : Bytes) : Bool :=
  (match parseCst doc with | some c => keyRespelled esc c | none => false)
  || (match parseCst patch with | some c => keyRespelled esc c | none => false)

/-! ### C02 / C07 / C03: merge family -/

/-- C02 on one MERGE case -/
def c02 (doc patch : Bytes) (obs : Obs) : Verdict :=
  match parseValueOf doc, parseValueOf patch with
  | some d, some p =>
    if d.isNull then .unspec
    else if !(d.noDup && p.noDup) then .unspec
    else
      match obs with
      | .ok out =>
        match parseValueOf out with
        | some v =>
          let want := Spec.merge d p
          if !Value.eqv want v then .viol "value"
          else if !p.isObj && !p.isArr && out ≠ patch then .viol "scalar-patch-not-verbatim"
          else .ok
        | none => .viol "output-not-json"
      | _ => .viol "should-succeed"
  | _, _ => .unspec

mutual
/-- members of `want` (the ordered specification result) and `got` agree on the order of
the members that were already in `doc`, and those come first (C05, merge clause) -/
def mergeOrderOk : Value → Value → Value → Bool
  | .obj dms, .obj wms, got =>
    match got with
    | .obj gms =>
      let old := (dms.map Prod.fst).filter fun k => (Value.lookup k gms).isSome
      (gms.map Prod.fst).take old.length == old && mergeOrderOkM dms wms gms
    | _ => false
  | _, _, _ => true
def mergeOrderOkM (dms : Value.Members) : Value.Members → Value.Members → Bool
  | [], _ => true
  | (k, w) :: wms, gms =>
    (match Value.lookup k dms, Value.lookup k gms with
     | some d, some g => mergeOrderOk d w g
     | _, _ => true) && mergeOrderOkM dms wms gms
end

/-- C05 on one MERGE case: document members first and in document order; literals -/
def c05merge (doc patch : Bytes) (obs : Obs) : Verdict :=
  match parseValueOf doc, parseValueOf patch, obs with
  | some d, some p, .ok out =>
    if d.isNull || !(d.noDup && p.noDup) then .unspec
    else match parseValueOf out with
      | some v =>
        if !mergeOrderOk d (Spec.merge d p) v then .viol "merge-member-order"
        else if !(v.numLits.all fun l => d.numLits.contains l || p.numLits.contains l) then .viol "literal-changed"
        else .ok
      | none => .viol "output-not-json"
  | _, _, _ => .unspec

/-- C07 on one COMPOSE case: `comb` = MergeMergePatches(p1,p2), `seq` = library
MergePatch(MergePatch(doc,p1),p2), `app` = library MergePatch(doc, comb) -/
def c07 (p1 p2 doc : Bytes) (comb seq app : Obs) : Verdict :=
  match parseValueOf p1, parseValueOf p2, parseValueOf doc with
  | some v1, some v2, some d =>
    if d.isNull || !(v1.noDup && v2.noDup && d.noDup) then .unspec
    else if !v1.isObj then .unspec
    else if !v2.isObj then
      (match comb with
       | .ok c => (match parseValueOf c with
                   | some cv => if Value.eqv cv v2 then .ok else .viol "non-object-p2"
                   | none => .viol "output-not-json")
       | _ => .viol "should-succeed")
    else if !Spec.compatible v1 v2 then .unspec
    else
      match comb with
      | .ok c =>
        match parseValueOf c with
        | some cv =>
          let want := Spec.merge (Spec.merge d v1) v2
          if !Value.eqv (Spec.merge d cv) want then .viol "reference-merge-of-combined"
          else if !Value.eqv cv (Spec.compose v1 v2) then .viol "combined-patch"
          else
            (match seq, app with
             | .ok s, .ok a =>
               (match parseValueOf s, parseValueOf a with
                | some sv, some av => if Value.eqv sv av && Value.eqv sv want then .ok else .viol "library-merge-of-combined"
                | _, _ => .viol "output-not-json")
             | _, _ => .viol "library-merge-failed")
        | none => .viol "output-not-json"
      | _ => .viol "should-succeed"
  | _, _, _ => .unspec

mutual
/-- every member the patch mentions differs between `a` and `b` at that path -/
def minimalAt : Value → Value → Value → Bool
  | .obj pms, a, b =>
    (match a, b with
     | .obj ams, .obj bms => minimalMs ams bms pms && !pms.isEmpty
     | _, _ => true)
  | _, _, _ => true
def minimalMs (ams bms : Value.Members) : Value.Members → Bool
  | [] => true
  | (k, pv) :: pms =>
    (match Value.lookup k ams, Value.lookup k bms with
     | some av, some bv =>
       !Value.eqv av bv && (if av.isObj && bv.isObj then minimalAt pv av bv else true)
     | none, some _ => true
     | some _, none => pv.isNull
     | none, none => false) && minimalMs ams bms pms
end

/-- both objects, or arrays of objects of the same length -/
def createShape (a b : Value) : Bool :=
  match a, b with
  | .obj _, .obj _ => true
  | .arr xs, .arr ys => xs.length == ys.length && xs.all Value.isObj && ys.all Value.isObj
  | _, _ => false

def c03pair (a b p : Value) (merged : Option Value) : Verdict :=
  let v1 : Verdict := if Value.eqv a b = (match p with | .obj [] => true | _ => false) then .ok else .viol "empty-iff-equal"
  let v2 : Verdict := if (match p, a, b with | .obj pms, .obj ams, .obj bms => minimalMs ams bms pms | _, _, _ => false)
                       then .ok else .viol "not-minimal"
  let v3 : Verdict := if p.numLits.all (fun l => b.numLits.contains l) then .ok else .viol "literal-changed"
  let v4 : Verdict :=
    if b.hasNullMember then .unspec
    else if !Value.eqv (Spec.merge a p) b then .viol "reference-roundtrip"
    else match merged with
      | some m => if Value.eqv m b then .ok else .viol "library-roundtrip"
      | none => .viol "library-merge-failed"
  v1.and (v2.and (v3.and v4))

/-- C03 on one CREATE case: `pobs` = CreateMergePatch(a,b); `mobs` = MergePatch(a, patch)
(object roots only) -/
def c03 (a b : Bytes) (pobs mobs : Obs) : Verdict :=
  match parseValueOf a, parseValueOf b with
  | some av, some bv =>
    if !(av.noDup && bv.noDup) then .unspec
    else if !createShape av bv then
      (match pobs with | .err _ => .ok | _ => .viol "should-reject")
    else
      match pobs with
      | .ok pt =>
        match parseValueOf pt with
        | none => .viol "output-not-json"
        | some pv =>
          (match av, bv, pv with
           | .obj _, .obj _, _ =>
             c03pair av bv pv (match mobs with | .ok m => parseValueOf m | _ => none)
           | .arr xs, .arr ys, .arr ps =>
             if ps.length ≠ xs.length then .viol "array-length"
             else ((xs.zip ys).zip ps).foldl
               (fun acc t => acc.and (c03pair t.1.1 t.1.2 t.2 (some (Spec.merge t.1.1 t.2)))) .ok
           | _, _, _ => .viol "patch-shape")
      | _ => .viol "should-succeed"
  | _, _ => .unspec

/-! ### C06 -/

def c06 (a b : Bytes) (got : Option Bool) : Verdict :=
  match got with
  | none => .viol "panic"
  | some g =>
    match parseValueOf a, parseValueOf b with
    | some va, some vb =>
      if !(va.noDup && vb.noDup) then .unspec
      else if Value.eqv va vb then (if g then .ok else .viol "equal-values-reported-different")
      else if Spec.numEqv va vb then .unspec
      else (if g then .viol "different-values-reported-equal" else .ok)
    | _, _ => if g then .viol "malformed-reported-equal" else .ok

/-- C06, "reflexive on well-formed texts, symmetric": judged on EVERY pair, repeated member names included (which value
such a text denotes is left open, that `Equal` is an equivalence is not).  `sym` = the answer to the swapped call,
`refl` = the answer to `Equal(a, a)`. -/
def c06rel (a : Bytes) (got sym refl : Option Bool) : Verdict :=
  if got ≠ sym then .viol "not-symmetric"
  else match parseValueOf a, refl with
    | some _, some false => .viol "not-reflexive"
    | _, _ => .ok

/-! ### C11 -/

/-- accessor results of one decoded operation, as the harness reports them -/
structure OpObs where
  kind : Bytes
  path : Option Bytes
  frm : Option Bytes
  value : Option Bytes       -- ValueInterface re-marshalled; `none` = error (absent)
  deriving Repr, DecidableEq, Inhabited

def c11 (patch : Bytes) (got : Option (List OpObs)) : Verdict :=
  match parseValueOf patch with
  | none => (match got with | none => .ok | some _ => .viol "malformed-accepted")
  | some v =>
    if Spec.wellFormedPatch v then
      match got, v with
      | some ops, .arr xs =>
        if ops.length ≠ xs.length then .viol "operation-count"
        else if ((xs.zip ops).all fun (x, o) =>
          match Spec.viewOp x with
          | some w =>
            o.kind = w.kind && o.path = some w.path && o.frm = w.frm
              && (match w.value, o.value with
                  | none, none => true
                  | some wv, some ov => (match parseValueOf ov with | some ov' => Value.eqv (Impl.anyOf wv) (Impl.anyOf ov') | none => false)
                  | _, _ => false)
          | none => false) then .ok else .viol "accessors"
      | _, _ => .viol "well-formed-rejected"
    else (match got with | none => .ok | some _ => .viol "ill-formed-accepted")

end JP
