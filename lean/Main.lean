import JP.Check
import JP.Driver

/-!
# Line-protocol driver

Reads one request per line on stdin (`<CMD> <id> <fields…> => <observed…>`, byte strings
in lower-case hex, `-` = empty, `!` = absent), runs the implementation model and the
property predicates of `JP.Check` and prints one reply line per request.
-/

open JP

partial def loop (h : IO.FS.Stream) (out : IO.FS.Stream) : IO Unit := do
  let line ← h.getLine
  if line.isEmpty then return ()
  let l := line.trimAscii.toString
  if !l.isEmpty then
    out.putStrLn (Driver.handle l)
  loop h out

def main : IO Unit := do
  let stdin ← IO.getStdin
  let stdout ← IO.getStdout
  loop stdin stdout
  stdout.flush
