package main

// Stream `float`: floats through the fork's encoder and decoder, and through encoding/json.
//
//	FLOAT <id> enc <bits> <pattern-hex> <quoted 0|1> => <fork> <std> <back>
//	FLOAT <id> dec <bits> <literal-hex>              => <fork> <std> <ptr> <any>
//
// enc: <fork>/<std> = ok:<hex of output> | err (Marshal of a float64 / float32 value, or of
// struct{F floatN `json:",string"`} with the `{"F":` … `}` frame removed); <back> = bit pattern the FORK decodes
// from its own output (same target type) | err | - (no output).
// dec: ok:<pattern-hex> | err of Unmarshal into floatN (fork, encoding/json), into *floatN (fork), and into
// interface{} with encoding/json (float64; `-` for 32 bits).

import (
	"bytes"
	stdjson "encoding/json"
	"fmt"
	"math"
	"math/big"
	"strconv"
	"strings"

	ijson "github.com/evanphx/json-patch/v5/internal/json"
)

type fq64 struct {
	F float64 `json:",string"`
}
type fq32 struct {
	F float32 `json:",string"`
}

func fobs(b []byte, err error) string {
	if err != nil {
		return "err"
	}
	return "ok:" + hx(b)
}

func unframe(b []byte, err error) ([]byte, error) {
	if err != nil {
		return nil, err
	}
	if !bytes.HasPrefix(b, []byte(`{"F":`)) || !bytes.HasSuffix(b, []byte(`}`)) {
		return nil, fmt.Errorf("frame")
	}
	return b[5 : len(b)-1], nil
}

func emitFloatEnc(id string, bits int, pat uint64, quoted bool) {
	var fork, std, back string
	res := guarded(func() string {
		var fb, sb []byte
		var fe, se error
		if bits == 64 {
			f := math.Float64frombits(pat)
			if quoted {
				fb, fe = unframe(ijson.Marshal(fq64{f}))
				sb, se = unframe(stdjson.Marshal(fq64{f}))
			} else {
				fb, fe = ijson.Marshal(f)
				sb, se = stdjson.Marshal(f)
			}
		} else {
			f := math.Float32frombits(uint32(pat))
			if quoted {
				fb, fe = unframe(ijson.Marshal(fq32{f}))
				sb, se = unframe(stdjson.Marshal(fq32{f}))
			} else {
				fb, fe = ijson.Marshal(f)
				sb, se = stdjson.Marshal(f)
			}
		}
		fork, std = fobs(fb, fe), fobs(sb, se)
		back = "-"
		if fe == nil {
			if bits == 64 {
				if quoted {
					var t fq64
					if err := ijson.Unmarshal(append(append([]byte(`{"F":`), fb...), '}'), &t); err != nil {
						back = "err"
					} else {
						back = "ok:" + strconv.FormatUint(math.Float64bits(t.F), 16)
					}
				} else {
					var t float64
					if err := ijson.Unmarshal(fb, &t); err != nil {
						back = "err"
					} else {
						back = "ok:" + strconv.FormatUint(math.Float64bits(t), 16)
					}
				}
			} else {
				if quoted {
					var t fq32
					if err := ijson.Unmarshal(append(append([]byte(`{"F":`), fb...), '}'), &t); err != nil {
						back = "err"
					} else {
						back = "ok:" + strconv.FormatUint(uint64(math.Float32bits(t.F)), 16)
					}
				} else {
					var t float32
					if err := ijson.Unmarshal(fb, &t); err != nil {
						back = "err"
					} else {
						back = "ok:" + strconv.FormatUint(uint64(math.Float32bits(t)), 16)
					}
				}
			}
		}
		return "done"
	})
	if res != "done" {
		fork, std, back = res, res, res
	}
	emit("FLOAT %s enc %d %x %s => %s %s %s", id, bits, pat, b01(quoted), fork, std, back)
}

func emitFloatDec(id string, bits int, lit string) {
	var fork, std, ptr, anyv string
	fany := "-"
	res := guarded(func() string {
		data := []byte(lit)
		if bits == 64 {
			var a, b float64
			a, b = 1.5, 1.5
			if err := ijson.Unmarshal(data, &a); err != nil {
				fork = "err"
			} else {
				fork = "ok:" + strconv.FormatUint(math.Float64bits(a), 16)
			}
			if err := stdjson.Unmarshal(data, &b); err != nil {
				std = "err"
			} else {
				std = "ok:" + strconv.FormatUint(math.Float64bits(b), 16)
			}
			var p *float64
			if err := ijson.Unmarshal(data, &p); err != nil || p == nil {
				ptr = "err"
			} else {
				ptr = "ok:" + strconv.FormatUint(math.Float64bits(*p), 16)
			}
			var x interface{}
			if err := stdjson.Unmarshal(data, &x); err != nil {
				anyv = "err"
			} else if f, ok := x.(float64); ok {
				anyv = "ok:" + strconv.FormatUint(math.Float64bits(f), 16)
			} else {
				anyv = "other"
			}
			// the FORK's own float path for interface{} targets: a Decoder without UseNumber (convertNumber); the
			// package-level Unmarshal functions force UseNumber and never get there
			var y interface{}
			if err := ijson.NewDecoder(bytes.NewReader(data)).Decode(&y); err != nil {
				fany = "err"
			} else if f, ok := y.(float64); ok {
				fany = "ok:" + strconv.FormatUint(math.Float64bits(f), 16)
			} else {
				fany = "other"
			}
		} else {
			var a, b float32
			a, b = 1.5, 1.5
			if err := ijson.Unmarshal(data, &a); err != nil {
				fork = "err"
			} else {
				fork = "ok:" + strconv.FormatUint(uint64(math.Float32bits(a)), 16)
			}
			if err := stdjson.Unmarshal(data, &b); err != nil {
				std = "err"
			} else {
				std = "ok:" + strconv.FormatUint(uint64(math.Float32bits(b)), 16)
			}
			var p *float32
			if err := ijson.Unmarshal(data, &p); err != nil || p == nil {
				ptr = "err"
			} else {
				ptr = "ok:" + strconv.FormatUint(uint64(math.Float32bits(*p)), 16)
			}
			anyv = "-"
		}
		return "done"
	})
	if res != "done" {
		fork, std, ptr, anyv, fany = res, res, res, res, res
	}
	emit("FLOAT %s dec %d %s => %s %s %s %s %s", id, bits, hx([]byte(lit)), fork, std, ptr, anyv, fany)
}

// ---------- generators ----------

var floatHard = []string{
	// integers around the limits of the machine integer types (a shortcut through int64/uint64 arithmetic goes wrong here)
	"9223372036854775807", "9223372036854775808", "9223372036854775809", "-9223372036854775808", "-9223372036854775809", "9300000000000000000",
	"9999999999999999999", "-9999999999999999999", "18446744073709551615", "18446744073709551616", "18446744073709551617", "10000000000000000000",
	"4294967295", "4294967296", "2147483647", "2147483648", "-2147483649", "999999999999999999", "1000000000000000000", "12345678901234567890",
	"2.2250738585072011e-308", "2.2250738585072012e-308", "2.2250738585072014e-308", "1.7976931348623157e308",
	"1.7976931348623158e308", "1.7976931348623159e308", "4.9e-324", "2.4703282292062327e-324", "2.4703282292062328e-324",
	"9007199254740993", "9007199254740992", "9007199254740991", "9007199254740994", "9007199254740995", "0.1", "1e23", "8.41e21", "5e-324", "1.1754943e-38",
	"1.1754944e-38", "3.4028235e38", "3.4028236e38", "3.4028235677973366e38", "3.4028235677973367e38", "1.00000017881393432617187499",
	"1.000000178813934326171875", "1.00000017881393432617187501", "-0", "-0.0e5", "0", "0.0", "0e0", "-0e-0", "0E+0", "0.000", "1e400",
	"1e-400", "-1e400", "-1e-400", "1e99999", "1e-99999", "0e99999", "-0e99999", "1e10000", "1e9999", "1e-10000", "1e100000", "1e1000000000000000000000",
	"1e-1000000000000000000000", "0.00000000000000000000000000000001e32", "100000000000000000000000000000000e-32", "1e-6", "1e21",
	"0.000001", "1000000000000000000000", "999999999999999999999", "0.00000099999999999999999", "1E5", "1e+5", "1.5e+0", "1.5E-0", "123456789012345678",
	"4.35e-322", "1e-323", "7e-324", "3e-324", "2e-324", "1e-324", "2.5e-324", "2.47e-324", "2.48e-324", "7.0064923216240854e-46", "7.0064923216240853e-46",
	"1.4e-45", "1e-45", "7e-46", "8e-46", "1.401298464324817e-45", "1.17549435e-38", "1.1754942e-38", "16777217", "16777216", "16777218", "16777219",
	"33554430", "33554431", "0.3", "0.7", "2.675", "1.005", "123.456", "1e0", "1e1", "1e22", "1e15", "1e16", "123456789012345", "1234567890123456",
	"999999999999999", "9999999999999999", "99999999999999999", "1.7976931348623157081e308", "179769313486231580793728971405303415079934132710037826936173778980444968292764750946649017977587207096330286416692887910946555547851940402630657488671505820681908902000708383676273854845817711531764475730270069855571366959622842914819860834936475292719074168444365510704342711559699508093042880177904174497791.9999999999999999999999999999999999999999999999999999999999999999999999",
	"179769313486231580793728971405303415079934132710037826936173778980444968292764750946649017977587207096330286416692887910946555547851940402630657488671505820681908902000708383676273854845817711531764475730270069855571366959622842914819860834936475292719074168444365510704342711559699508093042880177904174497792",
}

func randDigits(r *rng, n int) string {
	var sb strings.Builder
	for i := 0; i < n; i++ {
		sb.WriteByte(byte('0' + r.n(10)))
	}
	return sb.String()
}

// a well-formed JSON number spelling of digits·10^exp10 (digits non-empty, may have leading zeros)
func fspell(r *rng, neg bool, digits string, exp10 int) string {
	// choose where the point goes: shift s places from the right
	s := 0
	switch r.n(4) {
	case 0:
		s = 0
	case 1:
		s = r.n(len(digits) + 1)
	case 2:
		s = len(digits) - 1
	default:
		s = r.n(len(digits) + 6)
	}
	e := exp10 + s
	var ip, fp string
	if s >= len(digits) {
		ip = "0"
		fp = strings.Repeat("0", s-len(digits)) + digits
	} else {
		ip = digits[:len(digits)-s]
		fp = digits[len(digits)-s:]
	}
	ip = strings.TrimLeft(ip, "0")
	if ip == "" {
		ip = "0"
	}
	out := ip
	if fp != "" {
		out += "." + fp
	}
	if e != 0 || r.chance(1, 4) {
		es := "e"
		if r.chance(1, 4) {
			es = "E"
		}
		switch {
		case e < 0:
			es += "-"
		case r.chance(1, 3):
			es += "+"
		}
		if e < 0 {
			e = -e
		}
		if r.chance(1, 8) {
			es += "0"
		}
		out += es + strconv.Itoa(e)
	}
	if neg {
		out = "-" + out
	}
	return out
}

// exact decimal expansion of m·2^q: digits (no leading/trailing zeros unless "0") and exp10 with value = digits·10^exp10
func exactDecimal(m *big.Int, q int) (string, int) {
	n := new(big.Int).Set(m)
	e := 0
	if q >= 0 {
		n.Lsh(n, uint(q))
	} else {
		// m / 2^-q = m·5^-q / 10^-q
		n.Mul(n, new(big.Int).Exp(big.NewInt(5), big.NewInt(int64(-q)), nil))
		e = q
	}
	s := n.String()
	t := strings.TrimRight(s, "0")
	if t == "" {
		return "0", 0
	}
	return t, e + len(s) - len(t)
}

func fieldsOf(bits int, pat uint64) (m uint64, q int) {
	if bits == 64 {
		exp := int(pat>>52) & 0x7ff
		mant := pat & (1<<52 - 1)
		if exp == 0 {
			return mant, -1074
		}
		return mant | 1<<52, exp - 1075
	}
	exp := int(pat>>23) & 0xff
	mant := pat & (1<<23 - 1)
	if exp == 0 {
		return mant, -149
	}
	return mant | 1<<23, exp - 150
}

func randFinitePattern(r *rng, bits int) uint64 {
	if bits == 64 {
		var exp uint64
		switch r.n(6) {
		case 0:
			exp = 0
		case 1:
			exp = uint64(1 + r.n(3))
		case 2:
			exp = uint64(2046 - r.n(3))
		case 3:
			exp = uint64(1023 - 60 + r.n(130))
		default:
			exp = uint64(r.n(2047))
		}
		mant := r.next() & (1<<52 - 1)
		switch r.n(5) {
		case 0:
			mant = 0
		case 1:
			mant = 1<<52 - 1 - uint64(r.n(3))
		case 2:
			mant = uint64(r.n(4))
		}
		return exp<<52 | mant
	}
	var exp uint64
	switch r.n(6) {
	case 0:
		exp = 0
	case 1:
		exp = uint64(1 + r.n(3))
	case 2:
		exp = uint64(254 - r.n(3))
	case 3:
		exp = uint64(127 - 30 + r.n(70))
	default:
		exp = uint64(r.n(255))
	}
	mant := r.next() & (1<<23 - 1)
	switch r.n(5) {
	case 0:
		mant = 0
	case 1:
		mant = 1<<23 - 1 - uint64(r.n(3))
	case 2:
		mant = uint64(r.n(4))
	}
	return exp<<23 | mant
}

func patOf(bits int, lit string) uint64 {
	if bits == 64 {
		f, _ := strconv.ParseFloat(lit, 64)
		return math.Float64bits(f)
	}
	f, _ := strconv.ParseFloat(lit, 32)
	return uint64(math.Float32bits(float32(f)))
}

func genEncPattern(r *rng, bits int) uint64 {
	mb, total := uint(52), uint(64)
	expAll := uint64(2047)
	if bits == 32 {
		mb, total, expAll = 23, 32, 255
	}
	mask := uint64(1)<<(total-1) - 1
	var p uint64
	switch r.n(16) {
	case 0, 1, 2:
		p = r.next() & mask
	case 3:
		// random exponent, sparse mantissa
		e := uint64(r.n(int(expAll)))
		var m uint64
		for i := r.n(4); i > 0; i-- {
			m |= 1 << uint(r.n(int(mb)))
		}
		p = e<<mb | m
	case 4:
		// power of two and neighbours
		e := uint64(r.n(int(expAll)))
		p = e<<mb + uint64(r.n(7)) - 3
	case 5:
		// power of ten and neighbours
		k := r.n(700) - 350
		if bits == 32 {
			k = r.n(90) - 47
		}
		p = patOf(bits, "1e"+strconv.Itoa(k)) + uint64(r.n(7)) - 3
	case 6:
		// format cutoffs
		base := []string{"1e-6", "1e21", "1e-7", "1e20", "1e22", "1e-5"}[r.n(6)]
		p = patOf(bits, base) + uint64(r.n(9)) - 4
		if bits == 64 && r.chance(1, 2) {
			// the float64 image of a float32 next to the cutoff
			f32 := math.Float32frombits(uint32(patOf(32, base)) + uint32(r.n(5)) - 2)
			p = math.Float64bits(float64(f32))
		}
	case 7:
		// subnormals, extremes
		switch r.n(6) {
		case 0:
			p = uint64(r.n(8))
		case 1:
			p = uint64(1)<<mb - 1 - uint64(r.n(4))
		case 2:
			p = uint64(1)<<mb + uint64(r.n(4))
		case 3:
			p = (expAll-1)<<mb | (uint64(1)<<mb - 1 - uint64(r.n(4)))
		case 4:
			p = r.next() & (uint64(1)<<mb - 1)
		default:
			p = 0
		}
	case 8:
		// particular printed exponents
		ks := []int{-7, -8, -9, -10, -11, 21, 22, 100, -100, -324, -323, -310, 99, -99, 101, 308, -5, -6, 20, 9, 10, -45, -44, -38, 38, 37}
		k := ks[r.n(len(ks))]
		d := strconv.Itoa(1+r.n(9)) + "." + randDigits(r, r.n(17))
		p = patOf(bits, d+"e"+strconv.Itoa(k))
		if p >= expAll<<mb {
			p = (expAll-1)<<mb | (uint64(1)<<mb - 1)
		}
	case 9:
		// integers
		var n uint64
		switch r.n(4) {
		case 0:
			n = uint64(r.n(1000))
		case 1:
			n = r.next() % (1 << 53)
		case 2:
			n = r.next() % 1000000000000000
		default:
			n = r.next() >> uint(r.n(64))
		}
		if bits == 64 {
			p = math.Float64bits(float64(n))
		} else {
			p = uint64(math.Float32bits(float32(n)))
		}
	case 10:
		// binades where two shortest candidates can be equally close (ulp 2^-2, 2^-3, 2^-5 …)
		if bits == 64 {
			e := uint64(1023 + 40 + r.n(14))
			p = e<<52 | (r.next() & (1<<52 - 1))
		} else {
			e := uint64(127 + 12 + r.n(13))
			p = e<<23 | (r.next() & (1<<23 - 1))
		}
	case 11:
		// short decimals
		d := strconv.Itoa(1 + r.n(999999))
		p = patOf(bits, d+"e"+strconv.Itoa(r.n(60)-30))
	case 12:
		// NaN / Inf
		p = expAll<<mb | (r.next() & (uint64(1)<<mb - 1) >> uint(r.n(int(mb)+1)))
	default:
		p = randFinitePattern(r, bits)
	}
	p &= mask
	if r.chance(1, 3) {
		p |= uint64(1) << (total - 1)
	}
	return p
}

// the decimal expansion of the midpoint between the float `pat` and its successor, perturbed
func genHalfway(r *rng, bits int) string {
	pat := randFinitePattern(r, bits)
	if r.chance(1, 6) {
		// the largest finite value: the midpoint is the overflow threshold
		if bits == 64 {
			pat = 0x7fefffffffffffff
		} else {
			pat = 0x7f7fffff
		}
	} else if r.chance(1, 6) {
		pat = uint64(r.n(3)) // 0, min subnormal …
	}
	m, q := fieldsOf(bits, pat)
	mid := new(big.Int).SetUint64(m)
	mid.Lsh(mid, 1).Add(mid, big.NewInt(1))
	digits, e10 := exactDecimal(mid, q-1)
	switch r.n(7) {
	case 0:
		// exact
	case 1:
		// a little above: zeros, then a non-zero digit
		k := r.n(40)
		if r.chance(1, 4) {
			k = 30 + r.n(800)
		}
		digits += strings.Repeat("0", k) + strconv.Itoa(1+r.n(9))
		e10 -= k + 1
	case 2:
		// a little below: last digit one less, then nines
		k := r.n(40)
		if r.chance(1, 4) {
			k = 30 + r.n(800)
		}
		b := []byte(digits)
		b[len(b)-1]--
		digits = string(b) + strings.Repeat("9", k)
		e10 -= k
	case 3:
		// last digit + 1
		b := []byte(digits)
		if b[len(b)-1] < '9' {
			b[len(b)-1]++
		}
		digits = string(b)
	case 4:
		// trailing zeros only
		k := r.n(60)
		digits += strings.Repeat("0", k)
		e10 -= k
	case 5:
		// cut after 17..40 digits (rounds to one side)
		if n := 17 + r.n(24); n < len(digits) {
			e10 += len(digits) - n
			digits = digits[:n]
		}
	default:
		// pad up to 800+ digits with a tail
		k := 700 + r.n(300)
		if k > len(digits) {
			pad := k - len(digits)
			digits += strings.Repeat("0", pad-1) + "1"
			e10 -= pad
		}
	}
	return fspell(r, r.chance(1, 3), digits, e10)
}

func genDecLiteral(r *rng, bits int) string {
	switch r.n(16) {
	case 0, 1, 2:
		// 1..40 random digits, random exponent
		n := 1 + r.n(40)
		d := randDigits(r, n)
		e := r.n(80) - 40 - n/2
		if r.chance(1, 5) {
			e = r.n(700) - 350 - n
		}
		return fspell(r, r.chance(1, 3), d, e)
	case 3, 4, 5, 6:
		return genHalfway(r, bits)
	case 7:
		return floatHard[r.n(len(floatHard))]
	case 8:
		// huge and tiny exponents
		switch r.n(7) {
		case 0:
			return strconv.Itoa(1+r.n(99)) + "e" + strconv.Itoa(300+r.n(120))
		case 1:
			return strconv.Itoa(1+r.n(99)) + "e-" + strconv.Itoa(300+r.n(120))
		case 2:
			return "0." + strings.Repeat("0", r.n(420)) + strconv.Itoa(1+r.n(999))
		case 3:
			return strconv.Itoa(r.n(3)) + "e" + []string{"", "-", "+"}[r.n(3)] + randDigits(r, 4+r.n(20))
		case 4:
			return "0." + strings.Repeat("0", 300+r.n(200)) + "1e" + strconv.Itoa(300+r.n(200))
		case 5:
			return "1" + strings.Repeat("0", 300+r.n(200)) + "e-" + strconv.Itoa(300+r.n(200))
		default:
			return strconv.Itoa(1+r.n(9)) + "e" + []string{"", "-"}[r.n(2)] + strconv.Itoa(9990+r.n(20))
		}
	case 9:
		// around the largest finite value
		if bits == 64 {
			return "1.797693134862315" + randDigits(r, 1+r.n(6)) + "e308"
		}
		return "3.402823" + randDigits(r, 1+r.n(12)) + "e38"
	case 10:
		// zeros and leading-zero fractions
		switch r.n(4) {
		case 0:
			return []string{"-0", "0", "-0.0", "0.0e5", "-0.0e5", "0e-5", "-0E+7", "0.00", "-0.000e-999"}[r.n(9)]
		case 1:
			return "0." + strings.Repeat("0", r.n(12)) + randDigits(r, 1+r.n(17))
		default:
			return "-0." + strings.Repeat("0", r.n(30)) + strconv.Itoa(1+r.n(9))
		}
	case 11:
		// what the encoder prints for a random value, sometimes with the last digit changed
		pat := randFinitePattern(r, bits)
		var s string
		if bits == 64 {
			s = strconv.FormatFloat(math.Float64frombits(pat), "efg"[r.n(3)], -1, 64)
		} else {
			s = strconv.FormatFloat(float64(math.Float32frombits(uint32(pat))), "efg"[r.n(3)], -1, 32)
		}
		if r.chance(1, 2) {
			b := []byte(s)
			j := len(b) - 1
			if k := strings.IndexByte(s, 'e'); k >= 0 {
				j = k - 1
			}
			if j >= 0 && b[j] >= '0' && b[j] <= '9' && !(j == 0 && len(b) > 1 && b[1] != '.' && b[1] != 'e') && !(j == 1 && b[0] == '-' && len(b) > 2 && b[2] != '.' && b[2] != 'e') {
				b[j] = byte('0' + r.n(10))
			}
			s = string(b)
		}
		return s
	case 12:
		// integers around 2^53 / 2^24 and 15..20 digit integers
		switch r.n(3) {
		case 0:
			return strconv.FormatUint(1<<53-4+uint64(r.n(16)), 10)
		case 1:
			return strconv.FormatUint(1<<24-4+uint64(r.n(16)), 10)
		default:
			return strconv.Itoa(1+r.n(9)) + randDigits(r, 14+r.n(7))
		}
	case 13:
		// exact dyadic values written out in full
		pat := randFinitePattern(r, bits)
		m, q := fieldsOf(bits, pat)
		if m == 0 {
			m = 1
		}
		d, e := exactDecimal(new(big.Int).SetUint64(m), q)
		return fspell(r, r.chance(1, 3), d, e)
	case 14:
		if r.chance(1, 20) {
			// more than 800 integer digits: outside the model's domain (see JP/Codec/Float.lean)
			n := 801 + r.n(60)
			return "1" + randDigits(r, n) + "e-" + strconv.Itoa(n+r.n(3))
		}
		// many fraction digits (Go's 800-digit buffer overflows harmlessly)
		return strconv.Itoa(r.n(10)) + "." + randDigits(r, 780+r.n(60)) + "e" + strconv.Itoa(r.n(40)-20)
	default:
		n := 1 + r.n(19)
		return fspell(r, r.chance(1, 3), strconv.Itoa(1+r.n(9))+randDigits(r, n-1), r.n(30)-15-n)
	}
}

func streamFloat(r *rng, n int, pfx string) {
	// fixed part first (every shard): the hard literals in both widths
	if n > 0 {
		for i, l := range floatHard {
			emitFloatDec(fmt.Sprintf("%sh%d", pfx, i), 64, l)
			emitFloatDec(fmt.Sprintf("%sg%d", pfx, i), 32, l)
			emitFloatEnc(fmt.Sprintf("%sH%d", pfx, i), 64, patOf(64, l), i%5 == 0)
			emitFloatEnc(fmt.Sprintf("%sG%d", pfx, i), 32, patOf(32, l), i%5 == 1)
		}
	}
	for i := 0; i < n; i++ {
		id := fmt.Sprintf("%s%d", pfx, i)
		bits := 64
		if r.chance(2, 5) {
			bits = 32
		}
		if r.chance(1, 2) {
			emitFloatEnc(id, bits, genEncPattern(r, bits), r.chance(1, 8))
		} else {
			emitFloatDec(id, bits, genDecLiteral(r, bits))
		}
	}
}
