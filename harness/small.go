package main

// Small-scope exhaustive stream: every document of a tiny grammar x every single
// operation over a small token pool (and every pair of operations for the smallest
// documents), under both index dialects.

import (
	"fmt"
	"strings"
)

func smallDocs() []string {
	atoms := []string{"null", "1", `"s"`, "{}", "[]"}
	var level1 []string
	level1 = append(level1, "{}", "[]")
	for _, a := range atoms {
		level1 = append(level1, `{"a":`+a+`}`, `[`+a+`]`)
	}
	for _, a := range []string{"null", "1", "{}"} {
		for _, b := range []string{"null", `"s"`, "[]"} {
			level1 = append(level1, `{"a":`+a+`,"b":`+b+`}`, `[`+a+`,`+b+`]`)
		}
	}
	var docs []string
	docs = append(docs, level1...)
	inner := []string{`{"a":1}`, `[1]`, `{"a":null,"b":[]}`, `[null,{}]`}
	for _, x := range inner {
		docs = append(docs, `{"a":`+x+`}`, `[`+x+`]`, `{"a":`+x+`,"b":1}`, `[1,`+x+`]`)
	}
	return docs
}

func smallOps() []string {
	toks := []string{"a", "b", "0", "1", "-", "-1", "2"}
	var ptrs []string
	ptrs = append(ptrs, "")
	for _, t := range toks {
		ptrs = append(ptrs, "/"+t)
	}
	for _, t := range []string{"a", "0", "1", "b"} {
		for _, u := range toks {
			ptrs = append(ptrs, "/"+t+"/"+u)
		}
	}
	vals := []string{"null", "1", `{"c":2}`, "[]"}
	var ops []string
	for _, p := range ptrs {
		q := encString(p, false)
		ops = append(ops, `{"op":"remove","path":`+q+`}`)
		for _, v := range vals {
			ops = append(ops, `{"op":"add","path":`+q+`,"value":`+v+`}`)
			ops = append(ops, `{"op":"replace","path":`+q+`,"value":`+v+`}`)
			ops = append(ops, `{"op":"test","path":`+q+`,"value":`+v+`}`)
		}
		ops = append(ops, `{"op":"test","path":`+q+`}`)
	}
	// move / copy over a smaller pointer set
	small := []string{"", "/a", "/b", "/0", "/1", "/-", "/a/a", "/a/0", "/0/a", "/0/0", "/a/-"}
	for _, f := range small {
		for _, p := range small {
			ops = append(ops, `{"op":"move","from":`+encString(f, false)+`,"path":`+encString(p, false)+`}`)
			ops = append(ops, `{"op":"copy","from":`+encString(f, false)+`,"path":`+encString(p, false)+`}`)
		}
	}
	return ops
}

func streamSmall(shard, shards int) {
	docs := smallDocs()
	ops := smallOps()
	idx := 0
	run := func(flags aopts, doc string, patch string) {
		idx++
		if shards > 1 && idx%shards != shard {
			return
		}
		c := acase{o: flags, doc: []byte(doc), patch: []byte(patch)}
		emitApply(fmt.Sprintf("small-%d", idx), c)
	}
	for _, d := range docs {
		for _, op := range ops {
			run(aopts{neg: true, esc: true}, d, "["+op+"]")
			if strings.Contains(op, "-1") {
				run(aopts{neg: false, esc: true}, d, "["+op+"]")
			}
		}
	}
	// pairs on the smallest documents, reduced operation set
	var few []string
	for _, op := range ops {
		if !strings.Contains(op, `"/b`) && !strings.Contains(op, `/2`) && !strings.Contains(op, `"[]"`) && !strings.Contains(op, `{"c":2}`) &&
			!strings.Contains(op, `/1`) && !strings.Contains(op, `"test"`) {
			few = append(few, op)
		}
	}
	for _, d := range []string{`{"a":1}`, `[1]`, `{"a":{"a":1}}`, `{"a":[1]}`, `[null,{}]`, `{"a":null,"b":[]}`} {
		for _, o1 := range few {
			for _, o2 := range few {
				run(aopts{neg: true, esc: true}, d, "["+o1+","+o2+`,{"op":"test","path":"/a","value":1}]`)
			}
		}
	}
}

// Exhaustive index arithmetic: arrays of length 0..4 (at the root and nested) x every
// operation kind x every index spelling in a window around the bounds, under all four
// combinations of SupportNegativeIndices and AllowMissingPathOnRemove.
func streamIndex() {
	toks := []string{"-", "", "x", "01", "+1", "-0", "00", "1e0", " 1", "1 "}
	for i := -7; i <= 7; i++ {
		toks = append(toks, fmt.Sprintf("%d", i))
	}
	idx := 0
	for n := 0; n <= 4; n++ {
		var elems []string
		for k := 0; k < n; k++ {
			elems = append(elems, []string{"10", "null", `{"a":1}`, `[7]`, `"s"`}[k])
		}
		arr := "[" + strings.Join(elems, ",") + "]"
		for _, nested := range []bool{false, true} {
			doc, base := arr, ""
			if nested {
				doc, base = `{"a":`+arr+`,"b":1}`, "/a"
			}
			type tokv struct {
				t       string
				noSlash bool
			}
			var tvs []tokv
			for _, t := range toks {
				tvs = append(tvs, tokv{t, false})
			}
			for _, t := range []string{"0", "1", "-1", "-", "x", "a", "5"} {
				tvs = append(tvs, tokv{t, true}) // the same pointer without its leading '/'
			}
			for _, tv := range tvs {
				t := tv.t
				full := base + "/" + t
				if tv.noSlash {
					full = full[1:]
				}
				p := encString(full, false)
				var ops []string
				ops = append(ops,
					`{"op":"add","path":`+p+`,"value":99}`,
					`{"op":"remove","path":`+p+`}`,
					`{"op":"replace","path":`+p+`,"value":99}`,
					`{"op":"test","path":`+p+`,"value":10}`,
					`{"op":"test","path":`+p+`,"value":null}`,
					`{"op":"copy","from":`+p+`,"path":`+encString(base+"/-", false)+`}`,
					`{"op":"copy","from":`+encString(base+"/0", false)+`,"path":`+p+`}`,
					`{"op":"move","from":`+p+`,"path":`+encString(base+"/0", false)+`}`,
					`{"op":"move","from":`+encString(base+"/0", false)+`,"path":`+p+`}`,
					`{"op":"add","path":`+encString(full+"/z", false)+`,"value":1}`,
					`{"op":"remove","path":`+encString(full+"/a", false)+`}`)
				for _, op := range ops {
					for _, fl := range []aopts{{neg: true, esc: true}, {neg: false, esc: true}, {neg: true, allow: true, esc: true}, {neg: false, allow: true, esc: true},
						{neg: true, ensure: true, esc: true}} {
						idx++
						emitApply(fmt.Sprintf("index-%d", idx), acase{o: fl, doc: []byte(doc), patch: []byte("[" + op + "]")})
					}
				}
			}
		}
	}
}

// The same index arithmetic for the legacy package: arrays of length 0..4 x every operation
// kind x every canonical index in a window around the bounds and '-', both settings of
// SupportNegativeIndices.
func streamLIndex() {
	toks := []string{"-"}
	for i := -7; i <= 7; i++ {
		toks = append(toks, fmt.Sprintf("%d", i))
	}
	idx := 0
	for n := 0; n <= 4; n++ {
		var elems []string
		for k := 0; k < n; k++ {
			elems = append(elems, []string{"10", "null", `{"a":1}`, `[7]`, `"s"`}[k])
		}
		arr := "[" + strings.Join(elems, ",") + "]"
		for _, nested := range []bool{false, true} {
			doc, base := arr, ""
			if nested {
				doc, base = `{"a":`+arr+`,"b":1}`, "/a"
			}
			for _, t := range toks {
				p := encString(base+"/"+t, false)
				ops := []string{
					`{"op":"add","path":` + p + `,"value":99}`,
					`{"op":"remove","path":` + p + `}`,
					`{"op":"replace","path":` + p + `,"value":99}`,
					`{"op":"test","path":` + p + `,"value":10}`,
					`{"op":"copy","from":` + p + `,"path":` + encString(base+"/-", false) + `}`,
					`{"op":"copy","from":` + encString(base+"/0", false) + `,"path":` + p + `}`,
					`{"op":"move","from":` + p + `,"path":` + encString(base+"/0", false) + `}`,
					`{"op":"move","from":` + encString(base+"/0", false) + `,"path":` + p + `}`,
					`{"op":"remove","path":` + encString(base+"/"+t+"/a", false) + `}`,
					`{"op":"test","path":` + encString(base+"/"+t+"/0", false) + `,"value":7}`}
				for _, op := range ops {
					for _, neg := range []bool{true, false} {
						idx++
						emitLApply(fmt.Sprintf("lindex-%d", idx), neg, 0, []byte(doc), []byte("["+op+"]"), nil)
					}
				}
			}
		}
	}
}
