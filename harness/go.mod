module github.com/evanphx/json-patch/v5/zverif

go 1.18

require (
	github.com/evanphx/json-patch v0.0.0
	github.com/evanphx/json-patch/v5 v5.0.0
)

replace github.com/evanphx/json-patch/v5 => /repo/v5

replace github.com/evanphx/json-patch => /verif/build/legacy
