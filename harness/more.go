package main

import (
	"crypto/sha256"
	"bytes"
	stdjson "encoding/json"
	"fmt"
	"io"
	"os"
	"os/exec"
	"path/filepath"
	"reflect"
	"strconv"
	"strings"
	"sync"

	legacy "github.com/evanphx/json-patch"
	jsonpatch "github.com/evanphx/json-patch/v5"
	ijson "github.com/evanphx/json-patch/v5/internal/json"
)

func stdValid(t []byte) bool { return stdjson.Valid(t) }
func stdCompact(dst *bytes.Buffer, src []byte) error { return stdjson.Compact(dst, src) }

// ---------- CODEC (C17): the embedded codec against the model ----------

func codecObs(b []byte, err error) string {
	if err != nil {
		return "err:-n"
	}
	return "ok:" + hx(b)
}

func streamCodec(r *rng, n int, pfx string) {
	for i := 0; i < n; i++ {
		id := fmt.Sprintf("%s%d", pfx, i)
		t := genText(r)
		if len(t) > 4000 {
			t = []byte(r.pick(handMade))
		}
		switch r.n(10) {
		case 7, 8, 9:
			// the reflective encoder on the Go values the library marshals (enc.go)
			streamEnc(r, id)
		case 0:
			res := guarded(func() string {
				var b bytes.Buffer
				err := ijson.Compact(&b, t)
				return codecObs(b.Bytes(), err)
			})
			emit("CODEC %s compact - %s => %s", id, hx(t), res)
		case 1:
			ind := r.pick([]string{" ", "  ", "\t", ""})
			res := guarded(func() string {
				var b bytes.Buffer
				err := ijson.Indent(&b, t, "", ind)
				return codecObs(b.Bytes(), err)
			})
			emit("CODEC %s indent %s %s => %s", id, hx([]byte(ind)), hx(t), res)
		case 2:
			if !ijson.Valid(t) {
				t = spell{2, r}.text(genValue(r, cfgFor(r), 0))
			}
			res := guarded(func() string {
				var b bytes.Buffer
				ijson.HTMLEscape(&b, t)
				return codecObs(b.Bytes(), nil)
			})
			emit("CODEC %s htmlescape - %s => %s", id, hx(t), res)
		case 3, 4:
			esc := r.chance(1, 2)
			res := guarded(func() string {
				var v interface{}
				if err := ijson.Unmarshal(t, &v); err != nil {
					return "err:-n"
				}
				return codecObs(ijson.MarshalEscaped(v, esc))
			})
			emit("CODEC %s roundtrip %s %s => %s", id, hx([]byte(b01(esc))), hx(t), res)
		case 5:
			if !ijson.Valid(t) || r.chance(1, 2) {
				t = spell{r.n(3), r}.text(genObj(r, cfgFor(r), 0))
			}
			res := guarded(func() string {
				var m map[string]interface{}
				keys, err := ijson.UnmarshalWithKeys(t, &m)
				if err != nil {
					return "err:-n"
				}
				if keys == nil {
					keys = []string{}
				}
				return codecObs(ijson.Marshal(keys))
			})
			emit("CODEC %s keys - %s => %s", id, hx(t), res)
		default:
			s := r.pick(strPool) + r.pick(namePool)
			if r.chance(1, 4) {
				s += string([]byte{byte(r.n(256)), byte(r.n(256))})
			}
			esc := r.chance(1, 2)
			res := guarded(func() string { return codecObs(ijson.MarshalEscaped(s, esc)) })
			emit("CODEC %s quote %s %s => %s", id, hx([]byte(b01(esc))), hx([]byte(s)), res)
		}
	}
}

// ---------- STD (C17): differential against encoding/json (labelled as testing) ----------

type stdInner struct {
	X int      `json:"x"`
	Y *string  `json:"y,omitempty"`
	Z []string `json:"z"`
}
type stdOuter struct {
	Name    string                 `json:"name"`
	N       int64                  `json:"n,string"`
	F       float64                `json:"f"`
	B       bool                   `json:"-"`
	Skip    string                 `json:"skip,omitempty"`
	In      stdInner               `json:"in"`
	P       *stdInner              `json:"p"`
	M       map[string]int         `json:"m"`
	IM      map[int]string         `json:"im"`
	UM      map[uint16]bool        `json:"um,omitempty"`
	Any     interface{}            `json:"any"`
	Raw     stdjson.RawMessage     `json:"raw,omitempty"`
	Mixed   map[string]interface{} `json:"Mixed"`
	private int
}
type iOuter struct {
	Name    string                 `json:"name"`
	N       int64                  `json:"n,string"`
	F       float64                `json:"f"`
	B       bool                   `json:"-"`
	Skip    string                 `json:"skip,omitempty"`
	In      stdInner               `json:"in"`
	P       *stdInner              `json:"p"`
	M       map[string]int         `json:"m"`
	IM      map[int]string         `json:"im"`
	UM      map[uint16]bool        `json:"um,omitempty"`
	Any     interface{}            `json:"any"`
	Raw     ijson.RawMessage       `json:"raw,omitempty"`
	Mixed   map[string]interface{} `json:"Mixed"`
	private int
}

func dynOf(v *jv) interface{} {
	switch v.kind {
	case kNull:
		return nil
	case kBool:
		return v.b
	case kNum:
		f, _ := strconv.ParseFloat(v.lit, 64)
		if f > 1e300 || f < -1e300 {
			f = 1
		}
		return f
	case kStr:
		return v.s
	case kArr:
		xs := []interface{}{}
		for _, x := range v.arr {
			xs = append(xs, dynOf(x))
		}
		return xs
	}
	m := map[string]interface{}{}
	for i, k := range v.keys {
		m[k] = dynOf(v.vals[i])
	}
	return m
}

func streamStd(r *rng, n int, pfx string) {
	same := func(a []byte, ae error, b []byte, be error) string {
		if (ae == nil) != (be == nil) {
			return "diff:error"
		}
		// Go 1.22 changed the standard library to spell U+0008 / U+000C as \b / \f; the fork
		// keeps the older \u0008 / \u000c.  Same value, same length class of escape: normalised.
		if ae == nil && !bytes.Equal(normBF(a), normBF(b)) {
			return "diff:bytes"
		}
		return "same"
	}
	for i := 0; i < n; i++ {
		id := fmt.Sprintf("%s%d", pfx, i)
		c := cfgFor(r)
		switch r.n(8) {
		case 0: // dynamic values: Marshal
			v := dynOf(genValue(r, c, 0))
			res := guarded(func() string {
				a, ae := ijson.Marshal(v)
				b, be := stdjson.Marshal(v)
				return same(a, ae, b, be)
			})
			emit("STD %s marshal-dynamic => %s", id, res)
		case 1: // texts: Unmarshal into any (float64 mode is not reachable in the fork: Number), compare structure
			t := genText(r)
			if len(t) > 4000 {
				t = []byte("[1]")
			}
			res := guarded(func() string {
				var a, b interface{}
				ae := ijson.Unmarshal(t, &a)
				d := stdjson.NewDecoder(bytes.NewReader(t))
				d.UseNumber()
				be := d.Decode(&b)
				if be == nil && d.More() {
					be = fmt.Errorf("trailing")
				}
				if be == nil {
					// Decode does not reject trailing garbage; Valid does
					if !stdjson.Valid(t) {
						be = fmt.Errorf("invalid")
					}
				}
				if (ae == nil) != (be == nil) {
					return "diff:error"
				}
				if ae != nil {
					return "same"
				}
				x, _ := stdjson.Marshal(normNumbers(a))
				y, _ := stdjson.Marshal(normNumbers(b))
				if !bytes.Equal(x, y) {
					return "diff:value"
				}
				return "same"
			})
			emit("STD %s unmarshal-any => %s", id, res)
		case 2: // struct with tags: Marshal
			s := "y" + r.pick(strPool)
			o := stdOuter{Name: r.pick(strPool), N: int64(r.n(1000)) - 500, F: float64(r.n(1000)) / 8, B: true,
				In: stdInner{X: r.n(9), Z: []string{r.pick(strPool)}}, M: map[string]int{r.pick(plainNames): 1, r.pick(plainNames): 2},
				Any: dynOf(genValue(r, c, 1)), Mixed: map[string]interface{}{"k": dynOf(genValue(r, c, 2))}}
			// maps with integer keys: encoded with the keys' decimal TEXTS sorted as strings
			// ("-1" < "-2" < "10" < "9"), not by number
			if r.chance(2, 3) {
				o.IM = map[int]string{}
				for k := 0; k < 2+r.n(4); k++ {
					o.IM[[]int{-120, -12, -2, -1, 0, 1, 2, 9, 10, 11, 100, 1000}[r.n(12)]] = "v"
				}
			}
			if r.chance(1, 2) {
				o.UM = map[uint16]bool{}
				for k := 0; k < 2+r.n(3); k++ {
					o.UM[[]uint16{0, 2, 7, 10, 19, 100, 65535}[r.n(7)]] = true
				}
			}
			if r.chance(1, 2) {
				o.In.Y = &s
				o.P = &stdInner{X: 1}
			}
			if r.chance(1, 2) {
				o.Skip = "s"
				o.Raw = stdjson.RawMessage(`{"r": [1, 2]}`)
			}
			io := iOuter{Name: o.Name, N: o.N, F: o.F, B: o.B, Skip: o.Skip, In: o.In, P: o.P, M: o.M, IM: o.IM, UM: o.UM, Any: o.Any, Raw: ijson.RawMessage(o.Raw), Mixed: o.Mixed}
			res := guarded(func() string {
				a, ae := ijson.Marshal(io)
				b, be := stdjson.Marshal(o)
				return same(a, ae, b, be)
			})
			emit("STD %s marshal-struct => %s", id, res)
		case 3: // struct with tags: Unmarshal then re-Marshal with the standard library
			o := genObj(r, c, 0)
			o.keys = append(o.keys, "name", "n", "in", "m", "NAME")
			o.vals = append(o.vals, jstr(r.pick(strPool)), jstr(strconv.Itoa(r.n(99))),
				&jv{kind: kObj, keys: []string{"x", "z", "unknown"}, vals: []*jv{jnum(strconv.Itoa(r.n(9))), {kind: kArr, arr: []*jv{jstr("q")}}, jnull()}},
				&jv{kind: kObj, keys: []string{"a"}, vals: []*jv{jnum("3")}}, jstr("upper"))
			t := spell{r.n(3), r}.text(o)
			res := guarded(func() string {
				var a iOuter
				var b stdOuter
				ae := ijson.Unmarshal(t, &a)
				be := stdjson.Unmarshal(t, &b)
				if (ae == nil) != (be == nil) {
					return "diff:error"
				}
				b2 := stdOuter{Name: a.Name, N: a.N, F: a.F, B: a.B, Skip: a.Skip, In: a.In, P: a.P, M: a.M, Any: nil, Raw: stdjson.RawMessage(a.Raw), Mixed: nil}
				b.Any, b.Mixed = nil, nil
				x, _ := stdjson.Marshal(b2)
				y, _ := stdjson.Marshal(b)
				if !bytes.Equal(x, y) {
					return "diff:value"
				}
				return "same"
			})
			emit("STD %s unmarshal-struct => %s", id, res)
		case 4: // Encoder stream
			vals := []interface{}{dynOf(genValue(r, c, 0)), dynOf(genValue(r, c, 0)), r.pick(strPool)}
			esc := r.chance(1, 2)
			ind := r.pick([]string{"", " ", "\t"})
			res := guarded(func() string {
				var a, b bytes.Buffer
				ea, eb := ijson.NewEncoder(&a), stdjson.NewEncoder(&b)
				ea.SetEscapeHTML(esc)
				eb.SetEscapeHTML(esc)
				ea.SetIndent("", ind)
				eb.SetIndent("", ind)
				for _, v := range vals {
					e1, e2 := ea.Encode(v), eb.Encode(v)
					if (e1 == nil) != (e2 == nil) {
						return "diff:error"
					}
				}
				if !bytes.Equal(normBF(a.Bytes()), normBF(b.Bytes())) {
					return "diff:bytes"
				}
				return "same"
			})
			emit("STD %s encoder-stream => %s", id, res)
		case 6: // run-time generated struct types with tags: Marshal and Unmarshal against encoding/json
			recentStructs = nil
			typ := genStructType(r, 2+r.n(2))
			if r.chance(1, 6) {
				typ = genDiamond(r)
			}
			val := reflect.New(typ).Elem()
			fillValue(r, val, 2)
			// a text to decode: the marshalled value with its member names re-cased now and then, plus extras
			okText, _ := stdjson.Marshal(val.Interface())
			text := recase(r, okText)
			res := guarded(func() string {
				a, ae := ijson.Marshal(val.Interface())
				b, be := stdjson.Marshal(val.Interface())
				if sm := same(a, ae, b, be); sm != "same" {
					return sm
				}
				pa, pb := reflect.New(typ), reflect.New(typ)
				// the fork always decodes numbers in interface{} targets as Number: the standard library is asked
				// to do the same (Decoder.UseNumber; the text is a single value, so Decode = Unmarshal)
				sd := stdjson.NewDecoder(bytes.NewReader(text))
				sd.UseNumber()
				if len(text)%4 == 0 {
					// what an unrelated STRICT Decoder did a moment ago (DisallowUnknownFields, UseNumber off) is nobody
					// else's business: Unmarshal below must behave as in a fresh process (a function of the case)
					strict := ijson.NewDecoder(strings.NewReader(`{"known":1} {"unknown":2}`))
					strict.DisallowUnknownFields()
					var tgt struct{ Known int }
					_ = strict.Decode(&tgt)
					_ = strict.Decode(&tgt)
				}
				ue, ve := ijson.Unmarshal(text, pa.Interface()), sd.Decode(pb.Interface())
				if (ue == nil) != (ve == nil) {
					return "diff:error"
				}
				// each decoded value printed by its own library (the fork's Number type is its own)
				x, xe := ijson.Marshal(pa.Interface())
				y, ye := stdjson.Marshal(pb.Interface())
				if sm := same(x, xe, y, ye); sm != "same" {
					return "diff:value"
				}
				return "same"
			})
			if os.Getenv("JP_TRACE") != "" && res != "same" {
				fmt.Fprintf(os.Stderr, "TRACE reflect-struct %s %s\n  type %s\n  value %s\n  text %s\n", id, res, typ.String(), okText, text)
			}
			emit("STD %s reflect-struct => %s", id, res)
		case 5: // Decoder stream driven by a random PROGRAM of Token / More / Decode calls; Decode targets
			// are often of the wrong type, and the program goes on after such a (non-fatal) error
			var sb bytes.Buffer
			for k := 1 + r.n(2); k > 0; k-- {
				v := genValue(r, c, 0)
				if r.chance(1, 2) {
					// a flat container of mixed scalars: every element is a Decode target candidate
					v = &jv{kind: kArr, arr: []*jv{jnum("1"), jstr("two"), jnum("3.5"), {kind: kObj, keys: []string{"A"}, vals: []*jv{jnum("4")}}, jnull(), jnum("6")}}
					if r.chance(1, 2) {
						v = &jv{kind: kObj, keys: []string{"a", "b", "c", "d"}, vals: []*jv{jnum("1"), jstr("two"), {kind: kArr, arr: []*jv{jnum("3")}}, jnum("4")}}
					}
				}
				sb.Write(spell{r.n(3), r}.text(v))
				sb.WriteString(r.pick([]string{" ", "\n", ""}))
			}
			t := sb.Bytes()
			prog := make([]int, 4+r.n(14))
			for k := range prog {
				prog[k] = r.n(8)
			}
			type stepper struct {
				token  func() (interface{}, error)
				more   func() bool
				decode func(v interface{}) error
			}
			errClass := func(e error) string {
				if e == nil {
					return "nil"
				}
				if e == io.EOF {
					return "EOF"
				}
				n := fmt.Sprintf("%T", e)
				return n[strings.LastIndexByte(n, '.')+1:]
			}
			run := func(d stepper, delim func(interface{}) (string, bool)) string {
				var tr strings.Builder
				for _, st := range prog {
					switch st {
					case 0, 1:
						tk, e := d.token()
						if dl, ok := delim(tk); ok {
							fmt.Fprintf(&tr, "T[%s,%s]", dl, errClass(e))
						} else {
							fmt.Fprintf(&tr, "T[%v,%s]", tk, errClass(e))
						}
					case 2:
						fmt.Fprintf(&tr, "M[%v]", d.more())
					case 3:
						var x int
						e := d.decode(&x)
						fmt.Fprintf(&tr, "Di[%d,%s]", x, errClass(e))
					case 4:
						var x string
						e := d.decode(&x)
						fmt.Fprintf(&tr, "Ds[%q,%s]", x, errClass(e))
					case 5:
						var x interface{}
						e := d.decode(&x)
						fmt.Fprintf(&tr, "Da[%v,%s]", x, errClass(e))
					case 6:
						var x struct{ A int }
						e := d.decode(&x)
						fmt.Fprintf(&tr, "Dt[%d,%s]", x.A, errClass(e))
					default:
						var x []int
						e := d.decode(&x)
						fmt.Fprintf(&tr, "Dl[%v,%s]", x, errClass(e))
					}
				}
				return tr.String()
			}
			res := guarded(func() string {
				da, db := ijson.NewDecoder(bytes.NewReader(t)), stdjson.NewDecoder(bytes.NewReader(t))
				ta := run(stepper{func() (interface{}, error) { return da.Token() }, da.More, func(v interface{}) error { return da.Decode(v) }},
					func(x interface{}) (string, bool) { d, ok := x.(ijson.Delim); return d.String(), ok })
				tb := run(stepper{func() (interface{}, error) { return db.Token() }, db.More, func(v interface{}) error { return db.Decode(v) }},
					func(x interface{}) (string, bool) { d, ok := x.(stdjson.Delim); return d.String(), ok })
				if ta != tb {
					return "diff:trace"
				}
				return "same"
			})
			emit("STD %s decoder-program => %s", id, res)
		default: // Decoder stream: several values, tokens
			var sb bytes.Buffer
			for k := 1 + r.n(3); k > 0; k-- {
				sb.Write(spell{r.n(3), r}.text(genValue(r, c, 0)))
				sb.WriteString(r.pick([]string{" ", "\n", ""}))
				if r.chance(1, 20) {
					sb.WriteString("x")
				}
			}
			t := sb.Bytes()
			res := guarded(func() string {
				da, db := ijson.NewDecoder(bytes.NewReader(t)), stdjson.NewDecoder(bytes.NewReader(t))
				da.UseNumber()
				db.UseNumber()
				for k := 0; k < 200; k++ {
					ta, ea := da.Token()
					tb, eb := db.Token()
					if (ea == nil) != (eb == nil) {
						return "diff:error"
					}
					if ea != nil {
						return "same"
					}
					if fmt.Sprintf("%T %v", ta, ta) != strings.ReplaceAll(fmt.Sprintf("%T %v", tb, tb), "json.", "json.") {
						return "diff:token"
					}
				}
				return "same"
			})
			emit("STD %s decoder-tokens => %s", id, res)
		}
	}
}

func normNumbers(v interface{}) interface{} {
	switch x := v.(type) {
	case ijson.Number:
		return stdjson.Number(string(x))
	case []interface{}:
		for i := range x {
			x[i] = normNumbers(x[i])
		}
		return x
	case map[string]interface{}:
		for k := range x {
			x[k] = normNumbers(x[k])
		}
		return x
	}
	return v
}

// ---------- HIST (C09) and CONC (C10) ----------

type prepared struct {
	run func(id string)
}

// first observed line (without its id) per prepared call: a later execution of the same
// call that prints anything else shows a dependence on the call history
var histMu sync.Mutex
var histFirst = map[string]string{}

func emitHist(key string, format string, a ...interface{}) {
	line := fmt.Sprintf(format, a...)
	parts := strings.SplitN(line, " ", 3)
	body := parts[0]
	if len(parts) == 3 {
		body += " " + parts[2]
	}
	if strings.HasPrefix(line, "MERGE ") || strings.HasPrefix(line, "CREATE ") {
		// MergePatch promises the same JSON value, not the same bytes (new members are
		// appended in Go map iteration order): compare a canonical rendering of its output
		// (the only observable of MERGE, the second one of CREATE)
		if i := strings.Index(body, "=> "); i >= 0 {
			f := strings.Fields(body[i+3:])
			k := 0
			if strings.HasPrefix(line, "CREATE ") {
				k = 1
			}
			if k < len(f) {
				if b, ok := okBytes(f[k]); ok {
					if v, err := parseJV(b); err == nil {
						f[k] = "value:" + spell{1, nil}.print(sortKeys(v))
					}
				}
			}
			body = body[:i+3] + strings.Join(f, " ")
		}
	}
	histMu.Lock()
	first, seen := histFirst[key]
	if !seen {
		histFirst[key] = body
	}
	histMu.Unlock()
	if seen && first != body {
		line += " hist=diff"
	}
	if heldChanged() {
		line += " held=changed"
	}
	emit("%s", line)
}

func patchFingerprint(p jsonpatch.Patch) string {
	var sb strings.Builder
	for _, op := range p {
		keys := make([]string, 0, len(op))
		for k := range op {
			keys = append(keys, k)
		}
		// deterministic order
		for i := range keys {
			for j := i + 1; j < len(keys); j++ {
				if keys[j] < keys[i] {
					keys[i], keys[j] = keys[j], keys[i]
				}
			}
		}
		for _, k := range keys {
			sb.WriteString(k)
			sb.WriteByte('=')
			if op[k] == nil {
				sb.WriteString("<nil>")
			} else {
				sb.Write(*op[k])
			}
			sb.WriteByte(';')
		}
		sb.WriteByte('|')
	}
	return sb.String()
}

func prepareCalls(r *rng, k int) []prepared {
	var calls []prepared
	for i := 0; i < k; i++ {
		key := fmt.Sprintf("k%d-%d", r.next(), i)
		_ = key
		switch r.n(9) {
		case 8:
			// a PAIR of calls on ONE options object whose limit is exactly the copy total of the second: the first runs
			// the same copies and then fails (a failed call must leave nothing behind in the options, in the Patch or
			// anywhere else), the second must still succeed, before and after any number of executions of the first
			o := randOpts(r)
			o.ensure = false
			c := genApplyCase(r, cfgFor(r), o, r.n(3), r.n(3), 4)
			var docv *jv
			if v, err := parseJV(c.doc); err == nil {
				docv = v
			} else {
				continue
			}
			f := existingPath(r, docv)
			c.ops = append([]opSpec{{op: "copy", path: pickPath(r, docv, true), from: &f}}, c.ops...)
			c.patch = spell{1, r}.patchText(c.ops)
			totals := copyTotals(c)
			if len(totals) == 0 {
				continue
			}
			c.o.limit = totals[len(totals)-1]
			bad := c
			bad.ops = append(append([]opSpec{}, c.ops...), opSpec{op: "test", path: "/no/such/member", value: jnum("1")})
			bad.patch = spell{1, r}.patchText(bad.ops)
			for ci, cc := range []acase{bad, c} {
				cc := cc
				key := fmt.Sprintf("%s-%d", key, ci)
				shared, derr := jsonpatch.DecodePatch(cc.patch)
				fp := patchFingerprint(shared)
				calls = append(calls, prepared{func(id string) {
					docSnap := append([]byte(nil), cc.doc...)
					var obs string
					if derr != nil {
						obs = callApply(cc.o, cc.indent, cc.doc, cc.patch)
					} else {
						obs = callApplyDecoded(cc.o, cc.indent, cc.doc, shared)
					}
					extra := ""
					if !bytes.Equal(docSnap, cc.doc) || patchFingerprint(shared) != fp || !cc.o.sharedIntact() {
						extra += " mut=1"
					}
					emitHist(key, "APPLY %s %s %d %s %s %s => %s%s", id, cc.o.flags(), cc.o.limit, hx([]byte(cc.indent)), hx(cc.doc), hx(cc.patch), obs, extra)
				}})
			}
		case 0, 1, 2:
			o := randOpts(r)
			if r.chance(1, 3) {
				// a positive copy limit, small enough to be reached now and then (the running total
				// belongs to ONE call: a failed call must leave nothing behind)
				o.limit = int64(10 + r.n(150))
			}
			gc := cfgFor(r)
			if r.chance(1, 4) {
				// repeated member names: what the result is is left open, that it is the SAME result
				// every time is not
				gc.dups = true
				gc.plain = false
				gc.maxMember = 6
			}
			c := genApplyCase(r, gc, o, r.n(3), r.n(3), 5)
			if r.chance(1, 80) {
				// a result of more than 64 KiB that the caller keeps while later calls run
				c = bigApplyCase(r, o, 66000)
			}
			// escaped reference tokens (~0, ~1) in many of the concurrently applied patches: token
			// decoding is shared code
			if r.chance(1, 2) && len(c.doc) > 0 && c.doc[0] == '{' {
				v := jnum("1")
				c.ops = append([]opSpec{{op: "add", path: "/m~0n~1k", value: v}, {op: "test", path: "/m~0n~1k", value: v}}, c.ops...)
				c.patch = spell{1, r}.patchText(c.ops)
			}
			if r.chance(1, 6) {
				c.patch = corrupt(r, c.patch)
			}
			if r.chance(1, 8) {
				c.doc = corrupt(r, c.doc)
			}
			if r.chance(1, 6) {
				c.indent = " "
			}
			// sometimes the document IS an earlier result the caller still holds (not a copy of it)
			if r.chance(1, 5) {
				heldMu.Lock()
				if len(held) > 0 {
					c.doc = held[r.n(len(held))].live
				}
				heldMu.Unlock()
			}
			// one decoded Patch shared by every execution of this call
			shared, derr := jsonpatch.DecodePatch(c.patch)
			fp := patchFingerprint(shared)
			calls = append(calls, prepared{func(id string) {
				docSnap := append([]byte(nil), c.doc...)
				var obs string
				if derr != nil {
					obs = callApply(c.o, c.indent, c.doc, c.patch)
				} else {
					obs = callApplyDecoded(c.o, c.indent, c.doc, shared)
				}
				extra := ""
				if c.indent != "" {
					extra += " plain=" + callApply(c.o, "", c.doc, c.patch)
				}
				if !bytes.Equal(docSnap, c.doc) || patchFingerprint(shared) != fp || !c.o.sharedIntact() {
					extra += " mut=1"
				}
				emitHist(key, "APPLY %s %s %d %s %s %s => %s%s", id, c.o.flags(), c.o.limit, hx([]byte(c.indent)), hx(c.doc), hx(c.patch), obs, extra)
			}})
		case 3:
			a, b := genText(r), genText(r)
			if len(a) > 3000 {
				a = []byte("[null]")
			}
			if len(b) > 3000 || r.chance(1, 2) {
				b = append([]byte(" "), a...)
			}
			calls = append(calls, prepared{func(id string) {
				sa, sb := append([]byte(nil), a...), append([]byte(nil), b...)
				res := callEqual(a, b)
				mut := ""
				if !bytes.Equal(sa, a) || !bytes.Equal(sb, b) {
					mut = " mut=1"
				}
				emitHist(key, "EQUAL %s %s %s => %s%s", id, hx(a), hx(b), res, mut)
			}})
		case 4, 5:
			c := cfgFor(r)
			d := genObj(r, c, 0)
			p := genMergePatch(r, d, c, 0)
			td, tp := spell{r.n(3), r}.text(d), spell{r.n(3), r}.text(p)
			if r.chance(1, 8) {
				tp = corrupt(r, tp)
			}
			calls = append(calls, prepared{func(id string) {
				sd, sp := append([]byte(nil), td...), append([]byte(nil), tp...)
				res := callMerge(td, tp)
				mut := ""
				if !bytes.Equal(sd, td) || !bytes.Equal(sp, tp) {
					mut = " mut=1"
				}
				emitHist(key, "MERGE %s %s %s => %s%s", id, hx(td), hx(tp), res, mut)
			}})
		case 6:
			c := cfgFor(r)
			a := genObj(r, c, 0)
			b := mutateValue(r, a, c)
			ta, tb := spell{r.n(3), r}.text(a), spell{r.n(3), r}.text(b)
			calls = append(calls, prepared{func(id string) {
				sa, sb := append([]byte(nil), ta...), append([]byte(nil), tb...)
				pobs := callCreate(ta, tb)
				mobs := "err:-n"
				if pb, ok := okBytes(pobs); ok {
					mobs = callMerge(ta, pb)
				}
				mut := ""
				if !bytes.Equal(sa, ta) || !bytes.Equal(sb, tb) {
					mut = " mut=1"
				}
				emitHist(key, "CREATE %s %s %s => %s %s%s", id, hx(ta), hx(tb), pobs, mobs, mut)
			}})
		default:
			t := genText(r)
			if len(t) > 3000 {
				t = []byte("[{}]")
			}
			calls = append(calls, prepared{func(id string) { emitDecode(id, t) }})
		}
	}
	return calls
}

// random call histories over a fixed set of calls, with the pools poisoned in between:
// every line is judged against the (history-free) model, so any dependence on history
// shows as a disagreement
func streamHist(r *rng, n int, pfx string) {
	holdResults = true
	done := 0
	round := 0
	for done < n {
		k := 6
		calls := prepareCalls(r, k)
		if len(calls) == 0 {
			continue
		}
		scribble = round%2 == 1
		steps := 3 * k
		for s := 0; s < steps && done < n; s++ {
			if r.chance(1, 2) {
				ijson.VerifPoisonPools(1+r.n(4), r.next())
			}
			j := r.n(len(calls))
			calls[j].run(fmt.Sprintf("%sr%dc%ds%d", pfx, round, j, s))
			done++
		}
		round++
	}
}

// the same calls from several goroutines at once (shared Patch values, shared slices);
// run under the race detector by the check
func streamConc(r *rng, n int, pfx string) {
	holdResults = true
	done := 0
	round := 0
	for done < n {
		k := 5
		calls := prepareCalls(r, k)
		if len(calls) == 0 {
			continue
		}
		g := 4 + r.n(5)
		per := 6
		var wg sync.WaitGroup
		for t := 0; t < g; t++ {
			wg.Add(1)
			order := make([]int, per)
			for i := range order {
				order[i] = r.n(len(calls))
			}
			go func(t int, order []int) {
				defer wg.Done()
				for s, j := range order {
					calls[j].run(fmt.Sprintf("%sr%dg%dc%ds%d", pfx, round, t, j, s))
				}
			}(t, order)
		}
		wg.Wait()
		done += g * per
		round++
	}
}

// ---------- CLI (C20) ----------

func streamCli(r *rng, n int, pfx string) {
	bins := map[string]string{"v5": os.Getenv("JP_CLI_V5"), "v4": os.Getenv("JP_CLI_V4")}
	dir, err := os.MkdirTemp(os.Getenv("JP_SCRATCH"), "cli")
	if err != nil {
		fmt.Fprintln(os.Stderr, err)
		os.Exit(2)
	}
	defer os.RemoveAll(dir)
	for i := 0; i < n; i++ {
		pkg := "v5"
		if i%3 == 2 && bins["v4"] != "" {
			pkg = "v4"
		}
		bin := bins[pkg]
		if bin == "" {
			continue
		}
		if r.chance(1, 50) {
			// a BIG run: copies that keep doubling an array (8-30 MB of output) in one file or split over two; the
			// command must do what the library does whatever the sizes (limits, buffers); compared by digest
			k := 17 + r.n(5)
			one := `{"op":"copy","from":"/a","path":"/a/-"}`
			mk := func(n int) []byte { return []byte("[" + strings.Repeat(one+",", n-1) + one + "]") }
			var texts [][]byte
			if r.chance(1, 2) {
				texts = [][]byte{mk(k)}
			} else {
				texts = [][]byte{mk(k - 1), mk(1)}
			}
			var args, fields []string
			for f, t := range texts {
				name := filepath.Join(dir, fmt.Sprintf("big%d_%d.json", i, f))
				os.WriteFile(name, t, 0o644)
				args = append(args, "-p", name)
				fields = append(fields, hx(t))
			}
			emitCli(fmt.Sprintf("%s%d", pfx, i), pkg+"big", bin, []byte(`{"a":["0123456789"]}`), args, fields, texts, false)
			continue
		}
		cfg := cfgFor(r)
		cfg.plain = true
		// a document with a repeated member name now and then: what the library makes of it is unspecified, that the
		// command does what the library does file after file (each result serialised and read again) is not
		cfg.dups = r.chance(1, 8)
		docv := genContainer(r, cfg)
		stdin := spell{r.n(3), r}.text(docv)
		if r.chance(1, 20) {
			stdin = corrupt(r, stdin)
		}
		if r.chance(1, 30) {
			stdin = nil
		}
		nf := r.n(4)
		// a CHAIN: every file hands a replaced root (null, a scalar, a fresh container) to the next one, which starts by
		// looking at the root; and, in a document with a repeated member name, several files address that name
		chain := r.chance(1, 4)
		if chain {
			nf = 2 + r.n(2)
		}
		dupName := ""
		if docv.kind == kObj {
			seen := map[string]bool{}
			for _, k := range docv.keys {
				if seen[k] {
					dupName = k
				}
				seen[k] = true
			}
		}
		var args []string
		var fields []string
		var texts [][]byte
		missing := false
		cur := docv
		for f := 0; f < nf; f++ {
			name := filepath.Join(dir, fmt.Sprintf("p%d_%d.json", i, f))
			if !chain && r.chance(1, 15) {
				args = append(args, "-p", name+".absent")
				fields = append(fields, "MISSING")
				missing = true
				continue
			}
			c := genApplyCase(r, cfg, aopts{neg: true, esc: true}, 0, r.n(3), 3)
			// make the patch relative to the current document
			var ops []opSpec
			for k := r.n(4); k > 0; k-- {
				ops = append(ops, genOp(r, cur, cfg))
			}
			// what one file leaves behind is serialised and read again by the next: operations on the
			// root itself (replaced by null, by a scalar, by a fresh container; tested) at either end of a file
			if chain || r.chance(1, 6) {
				v, _ := parseJV([]byte(r.pick([]string{"null", "null", `{"fresh":true}`, "[]", "1", `{"a":null}`, "[null]"})))
				rop := opSpec{op: r.pick([]string{"add", "replace", "test", "add"}), path: "", value: v}
				atEnd := r.chance(1, 2)
				if chain {
					atEnd = f%2 == 0
					if !atEnd {
						rop.op = r.pick([]string{"test", "add", "add"})
					} else if rop.op == "test" {
						rop.op = "replace"
					}
				}
				if atEnd {
					ops = append(ops, rop)
				} else {
					ops = append([]opSpec{rop}, ops...)
				}
			}
			if dupName != "" && r.chance(1, 2) {
				v, _ := parseJV([]byte("5"))
				ops = append([]opSpec{{op: r.pick([]string{"remove", "remove", "replace", "test"}), path: "/" + encTok(dupName), value: v}}, ops...)
			}
			text := spell{r.n(3), r}.patchText(ops)
			_ = c
			if r.chance(1, 15) {
				text = corrupt(r, text)
			}
			if b, ok := okBytes(callApply(aopts{neg: true, esc: true}, "", spell{1, r}.text(cur), text)); ok {
				if v, err := parseJV(b); err == nil && v.isCon() {
					cur = v
				}
			}
			os.WriteFile(name, text, 0o644)
			args = append(args, "-p", name)
			fields = append(fields, hx(text))
			texts = append(texts, text)
			// the same file named twice (also under another spelling of its path) is applied twice
			if r.chance(1, 5) {
				alt := name
				if r.chance(1, 2) {
					alt = filepath.Join(filepath.Dir(name), ".", "..", filepath.Base(filepath.Dir(name)), filepath.Base(name))
				}
				args = append(args, "-p", alt)
				fields = append(fields, hx(text))
				texts = append(texts, text)
				if b, ok := okBytes(callApply(aopts{neg: true, esc: true}, "", spell{1, r}.text(cur), text)); ok {
					if v, err := parseJV(b); err == nil && v.isCon() {
						cur = v
					}
				}
			}
		}
		emitCli(fmt.Sprintf("%s%d", pfx, i), pkg, bin, stdin, args, fields, texts, missing)

	}
}

var _ = reflect.DeepEqual

func sortKeys(v *jv) *jv {
	for _, x := range v.arr {
		sortKeys(x)
	}
	for _, x := range v.vals {
		sortKeys(x)
	}
	if v.kind == kObj {
		for i := range v.keys {
			for j := i + 1; j < len(v.keys); j++ {
				if v.keys[j] < v.keys[i] {
					v.keys[i], v.keys[j] = v.keys[j], v.keys[i]
					v.vals[i], v.vals[j] = v.vals[j], v.vals[i]
				}
			}
		}
	}
	return v
}

// every 3-byte sequence E2 xx yy inside a string, through the escaping paths of the codec
func streamE2(shard, shards int) {
	idx := 0
	for x := 0; x < 256; x++ {
		for y := 0; y < 256; y++ {
			idx++
			if shards > 1 && idx%shards != shard {
				continue
			}
			body := []byte{0xE2, byte(x), byte(y)}
			if x == '"' || y == '"' || x == '\\' || y == '\\' || x < 0x20 || y < 0x20 {
				continue
			}
			t := append(append([]byte{'"'}, body...), '"')
			id := fmt.Sprintf("e2-%02x%02x", x, y)
			replayCodec(id+"c", "compactesc", nil, t)
			replayCodec(id+"h", "htmlescape", nil, t)
			replayCodec(id+"q", "quote", []byte("1"), body)
			replayCodec(id+"r", "roundtrip", []byte("0"), t)
		}
	}
}

// rewrite the escapes \u0008 and \u000c (either case) as \b and \f; other escape sequences
// are stepped over as units
func normBF(b []byte) []byte {
	out := make([]byte, 0, len(b))
	for i := 0; i < len(b); i++ {
		if b[i] == '\\' && i+1 < len(b) {
			if b[i+1] == 'u' && i+5 < len(b) {
				h := strings.ToLower(string(b[i+2 : i+6]))
				if h == "0008" {
					out = append(out, '\\', 'b')
					i += 5
					continue
				}
				if h == "000c" {
					out = append(out, '\\', 'f')
					i += 5
					continue
				}
			}
			out = append(out, b[i], b[i+1])
			i++
			continue
		}
		out = append(out, b[i])
	}
	return out
}

// run the command on the prepared arguments, compute the fold of the library's own Apply
// in-process, and print the CLI line
func emitCli(id, pkg, bin string, stdin []byte, args, fields []string, texts [][]byte, missing bool) {
	cmd := exec.Command(bin, args...)
	cmd.Stdin = bytes.NewReader(stdin)
	var so, se bytes.Buffer
	cmd.Stdout, cmd.Stderr = &so, &se
	err := cmd.Run()
	exit := 0
	if err != nil {
		exit = 1
		if ee, ok := err.(*exec.ExitError); ok {
			exit = ee.ExitCode()
		}
	}
	// the fold of the library's own Apply
	libOut, libExit := []byte(nil), 0
	if missing {
		libExit = 1
	} else {
		mdoc := stdin
		if strings.HasPrefix(pkg, "v5") {
			var ps []jsonpatch.Patch
			for _, t := range texts {
				p, err := jsonpatch.DecodePatch(t)
				if err != nil {
					libExit = 1
					break
				}
				ps = append(ps, p)
			}
			if libExit == 0 {
				for _, p := range ps {
					mdoc, err = p.Apply(mdoc)
					if err != nil {
						libExit = 1
						break
					}
				}
			}
		} else {
			var ps []legacy.Patch
			for _, t := range texts {
				p, err := legacy.DecodePatch(t)
				if err != nil {
					libExit = 1
					break
				}
				ps = append(ps, p)
			}
			if libExit == 0 {
				res := guarded(func() string {
					for _, p := range ps {
						mdoc, err = p.Apply(mdoc)
						if err != nil {
							return "err"
						}
					}
					return "ok"
				})
				if res != "ok" {
					libExit = 1
				}
			}
		}
		if libExit == 0 {
			libOut = mdoc
		}
	}
	outB := so.Bytes()
	if strings.HasSuffix(pkg, "big") {
		// megabytes of output: SHA-256 digests stand for the two texts (empty stays empty)
		dg := func(b []byte) []byte {
			if len(b) == 0 {
				return b
			}
			h := sha256.Sum256(b)
			return h[:]
		}
		outB, libOut = dg(outB), dg(libOut)
	}
	toks := []string{"CLI", id, pkg, hx(stdin), strconv.Itoa(len(fields))}
	toks = append(toks, fields...)
	toks = append(toks, "=>", hx(outB), strconv.Itoa(exit), hx(libOut), strconv.Itoa(libExit), strconv.Itoa(se.Len()))
	emit("%s", strings.Join(toks, " "))
}

// ---------- run-time generated struct types (C17: tags, embedding, field-name matching) ----------

var fieldNames = []string{"A", "B", "Name", "NAME", "Name2", "X1", "X_1", "Key", "KEY", "Ab", "AB", "Inner", "Val", "K9", "Zeta"}
var tagNames = []string{"", "", "a", "A", "name", "Name", "k9", "K9", "x-1", "x_1", "ſ", "K", "k", "-", "with space", "é",
	// one name per class of fold.go's foldFunc and names that MIX the classes in both orders (s/k before and after a non-ASCII
	// letter, letters other than s/k only, no letters at all): the matcher is chosen per field name
	"straße", "señor", "kälte", "étés", "naïve", "日本k", "ab", "q_1", "_1"}

// struct types generated for the current top-level type: one of them is REUSED now and then, so that the same type is
// reached along two embedding paths (a diamond: its promoted fields are ambiguous at equal depth, visible at different depths)
var recentStructs []reflect.Type

// a DIAMOND of embedded structs: Top embeds Left and Right (optionally through pointers), both embed the same Mid, and Mid
// may itself embed a Leaf: which promoted fields are ambiguous (dropped) and which are reached through the first path is
// decided by depth and multiplicity counters in typeFields
func genDiamond(r *rng) (t reflect.Type) {
	defer func() {
		if recover() != nil {
			t = genStructType(r, 1)
		}
	}()
	emb := func(name string, ty reflect.Type, tag string) reflect.StructField {
		f := reflect.StructField{Name: name, Type: ty, Anonymous: true}
		if tag != "" {
			f.Tag = reflect.StructTag(`json:"` + tag + `"`)
		}
		return f
	}
	plain := func(name string, tag string) reflect.StructField {
		f := reflect.StructField{Name: name, Type: []reflect.Type{reflect.TypeOf(0), reflect.TypeOf(""), reflect.TypeOf(true)}[r.n(3)]}
		if tag != "" {
			f.Tag = reflect.StructTag(`json:"` + tag + `"`)
		}
		return f
	}
	leaf := reflect.StructOf([]reflect.StructField{plain("X1", r.pick([]string{"", "x", "k"})), plain("Val", r.pick([]string{"", "y"}))})
	midF := []reflect.StructField{plain("Key", r.pick([]string{"", "k", "z"}))}
	if r.chance(2, 3) {
		midF = append(midF, emb("Inner", leaf, ""))
	}
	mid := reflect.StructOf(midF)
	side := func(extra string) reflect.Type {
		fs := []reflect.StructField{emb("Zeta", mid, "")}
		if r.chance(1, 2) {
			fs = append(fs, plain(extra, r.pick([]string{"", "k", "x"})))
		}
		return reflect.StructOf(fs)
	}
	left, right := side("A"), side("B")
	if r.chance(1, 3) {
		right = left
	}
	topF := []reflect.StructField{emb("Name", left, ""), emb("Name2", right, "")}
	if r.chance(1, 3) {
		topF[1] = emb("Name2", reflect.PtrTo(right), "")
	}
	if r.chance(1, 2) {
		topF = append(topF, plain("K9", r.pick([]string{"", "x", "k", "y"})))
	}
	if r.chance(1, 4) {
		// a third path at another depth
		topF = append(topF, emb("Ab", mid, ""))
	}
	return reflect.StructOf(topF)
}

func subStruct(r *rng, depth int) reflect.Type {
	if len(recentStructs) > 0 && r.chance(1, 3) {
		return recentStructs[r.n(len(recentStructs))]
	}
	t := genStructType(r, depth)
	if t != nil && len(recentStructs) < 8 {
		recentStructs = append(recentStructs, t)
	}
	return t
}

func genStructType(r *rng, depth int) reflect.Type {
	n := 1 + r.n(5)
	var fs []reflect.StructField
	used := map[string]bool{}
	for i := 0; i < n; i++ {
		name := r.pick(fieldNames)
		if used[name] {
			continue
		}
		used[name] = true
		var t reflect.Type
		switch k := r.n(12); {
		case k == 0:
			t = reflect.TypeOf(int(0))
		case k == 1:
			t = reflect.TypeOf("")
		case k == 2:
			t = reflect.TypeOf(true)
		case k == 3:
			t = []reflect.Type{reflect.TypeOf(float64(0)), reflect.TypeOf(float32(0)), reflect.TypeOf(float32(0))}[r.n(3)]
		case k == 4:
			t = reflect.TypeOf((*int)(nil))
		case k == 5:
			t = reflect.TypeOf([]string(nil))
		case k == 6:
			t = reflect.TypeOf(map[string]int(nil))
		case k == 7:
			t = reflect.TypeOf((*interface{})(nil)).Elem()
		case k == 8:
			t = []reflect.Type{reflect.TypeOf(uint8(0)), reflect.TypeOf(uint16(0)), reflect.TypeOf(uint32(0)), reflect.TypeOf(uint64(0)), reflect.TypeOf(uint(0))}[r.n(5)]
		case k == 9:
			t = reflect.TypeOf([]byte(nil))
		case depth > 0 && k == 10 && r.chance(1, 2):
			// containers of structs BY VALUE (the decoder reuses one scratch element per map)
			if r.chance(1, 2) {
				t = reflect.MapOf(reflect.TypeOf(""), genStructType(r, depth-1))
			} else {
				t = reflect.SliceOf(genStructType(r, depth-1))
			}
		case depth > 0 && k == 10:
			t = subStruct(r, depth-1)
		case depth > 0:
			t = reflect.PtrTo(subStruct(r, depth-1))
		default:
			t = []reflect.Type{reflect.TypeOf(int64(0)), reflect.TypeOf(int8(0)), reflect.TypeOf(int16(0)), reflect.TypeOf(int32(0)),
				reflect.TypeOf([]float32(nil)), reflect.TypeOf(map[string]float32(nil)), reflect.TypeOf((*float32)(nil)), reflect.TypeOf([]int8(nil))}[r.n(8)]
		}
		f := reflect.StructField{Name: name, Type: t}
		tag := r.pick(tagNames)
		var opts string
		if r.chance(1, 3) {
			opts += ",omitempty"
		}
		if r.chance(1, 4) {
			opts += ",string"
		}
		if tag != "" || opts != "" {
			f.Tag = reflect.StructTag(`json:"` + tag + opts + `"`)
		}
		// an embedded struct (its fields are promoted unless it is tagged)
		if (t.Kind() == reflect.Struct || (t.Kind() == reflect.Ptr && t.Elem().Kind() == reflect.Struct && r.chance(1, 2))) && r.chance(2, 3) {
			f.Anonymous = true
		}
		fs = append(fs, f)
	}
	defer func() { recover() }()
	return safeStructOf(fs)
}

func safeStructOf(fs []reflect.StructField) (t reflect.Type) {
	defer func() {
		if recover() != nil {
			// reflect refuses some combinations (e.g. embedded fields): fall back to plain fields
			for i := range fs {
				fs[i].Anonymous = false
			}
			t = reflect.StructOf(fs)
		}
	}()
	return reflect.StructOf(fs)
}

func fillValue(r *rng, v reflect.Value, depth int) {
	switch v.Kind() {
	case reflect.Int, reflect.Int8, reflect.Int16, reflect.Int32, reflect.Int64:
		v.SetInt(int64(r.n(5)) - 2)
	case reflect.Uint, reflect.Uint8, reflect.Uint16, reflect.Uint32, reflect.Uint64:
		v.SetUint(uint64(r.n(3)))
	case reflect.Float32:
		v.SetFloat(float64([]float32{0, 1, -0.5, 3.4028235e38, 1e-7, 16777216, 0.1, 1.0000001}[r.n(8)]))
	case reflect.String:
		if r.chance(2, 3) {
			v.SetString(r.pick(strPool))
		}
	case reflect.Bool:
		v.SetBool(r.chance(1, 2))
	case reflect.Float64:
		v.SetFloat([]float64{0, 1, -0.5, 1e21, 1e-7, 100, 3.25}[r.n(7)])
	case reflect.Ptr:
		if r.chance(1, 2) {
			v.Set(reflect.New(v.Type().Elem()))
			fillValue(r, v.Elem(), depth)
		}
	case reflect.Slice:
		if v.Type().Elem().Kind() == reflect.Uint8 {
			if r.chance(1, 2) {
				v.SetBytes([]byte(r.pick(strPool)))
			}
		} else if r.chance(2, 3) {
			n := r.n(3)
			s := reflect.MakeSlice(v.Type(), n, n)
			for i := 0; i < n; i++ {
				fillValue(r, s.Index(i), depth)
			}
			v.Set(s)
		}
	case reflect.Map:
		if r.chance(2, 3) {
			m := reflect.MakeMap(v.Type())
			for i := r.n(4); i > 0; i-- {
				e := reflect.New(v.Type().Elem()).Elem()
				fillValue(r, e, depth-1)
				m.SetMapIndex(reflect.ValueOf(r.pick(plainNames)), e)
			}
			v.Set(m)
		}
	case reflect.Interface:
		if r.chance(2, 3) {
			if d := dynOf(genValue(r, genCfg{depth: 1, maxMember: 2, nullW: 2}, 1)); d != nil {
				v.Set(reflect.ValueOf(d))
			}
		}
	case reflect.Struct:
		for i := 0; i < v.NumField(); i++ {
			if !v.Field(i).CanSet() {
				continue
			}
			if v.Field(i).Kind() == reflect.String && strings.Contains(string(v.Type().Field(i).Tag), ",string") {
				// quoted twice: keep U+0008/U+000C out (their spelling differs between Go releases and
				// the one-level normalisation does not reach inside the inner literal)
				v.Field(i).SetString(r.pick([]string{"", "s", "a\"b", "<>&", "é", "1", "true", "null", "\u2028"}))
				continue
			}
			fillValue(r, v.Field(i), depth-1)
		}
	}
}

var numBoundaryPool = []string{"127", "128", "-128", "-129", "255", "256", "32767", "32768", "-32769", "65535", "65536",
	"2147483647", "2147483648", "-2147483649", "4294967295", "4294967296", "9223372036854775807", "9223372036854775808",
	"-9223372036854775808", "-9223372036854775809", "18446744073709551615", "18446744073709551616", "-0", "-1", "1.0", "1.5",
	"1e2", "1E2", "1e-2", "0.1", "1e400", "-1e400", "3.4028235e38", "3.4028235e+38", "3.4028236e38", "-3.4028235e+38",
	"340282346638528859811704183484516925440", "340282356779733661637539395458142568447", "340282356779733661637539395458142568448",
	"3.4028235677973366e38", "3.4028234663852886e38", "1.00000005960464477539062500000000000000001", "1.000000059604644775390625",
	"1.00000017881393432617187500000000000000001", "16777217", "16777216.5", "0.1000000014901161193847656", "1e-46",
	"1.401298464324817e-45", "7e-46", "7.006492321624085e-46", "7.006492321624086e-46", "1.7976931348623157e308", "1.7976931348623159e308",
	"4.9e-324", "2e-324", "123456789012345678901234567890", "0.30000000000000004", "1e21", "1e20", "100000000000000000000",
	"-1e-7", "0e0", "0E+0", "1e+00", "2.5", "-2.5", "1e1", "12e-1", "0.5e1"}

// the same JSON text with some member names in another case, a duplicate or an unknown member
func recase(r *rng, t []byte) []byte {
	v, err := parseJV(t)
	if err != nil {
		return t
	}
	var walk func(x *jv)
	walk = func(x *jv) {
		switch x.kind {
		case kObj:
			for i := range x.keys {
				switch r.n(7) {
				case 0:
					x.keys[i] = strings.ToUpper(x.keys[i])
				case 1:
					x.keys[i] = strings.ToLower(x.keys[i])
				case 2:
					x.keys[i] = strings.Title(strings.ToLower(x.keys[i]))
				case 3:
					// the two non-ASCII letters that fold to ASCII ones
					x.keys[i] = strings.NewReplacer("s", "\u017f", "k", "\u212a", "S", "\u017f", "K", "\u212a").Replace(x.keys[i])
				}
				walk(x.vals[i])
			}
			if r.chance(1, 4) {
				x.keys = append(x.keys, r.pick([]string{"unknown", "A", "name", "K", "k9", "\u017f"}))
				x.vals = append(x.vals, jnum("7"))
			}
		case kNum:
			// number literals at the boundaries of every numeric kind (range checks, rounding to float32 and
			// float64, exponents, precision beyond any machine type): both decoders must agree on acceptance AND value
			if r.chance(1, 3) {
				x.lit = r.pick(numBoundaryPool)
			}
		case kArr:
			for _, e := range x.arr {
				walk(e)
			}
		}
	}
	walk(v)
	return spell{r.n(2), r}.text(v)
}
