package main

// STREAM: the Decoder / Encoder streams of v5/internal/json/stream.go against the literal model
// JP/Codec/Stream.lean.
//
//	STREAM <id> dec <input> <program> <chunking> => <trace> | panic | hang
//	STREAM <id> enc <esc 0|1> <prefix> <indent> <wire>,<wire>,… => ok:<written> <flags> | panic | hang
//
// dec: a fresh Decoder (UseNumber on) over a reader that delivers <input> in the given chunking, driven by
// <program>: one letter per call, T Token, M More, and Decode into a fresh variable of type
// a any, s string, r RawMessage, p *RawMessage, m map[string]any, l []any, k map[string]*lazyLike, q []RawMessage.
// The model never sees the chunking; it has to agree with every one of them.
//
//	chunking: w everything in one Read; 1 one byte per Read; r<seed> random chunks of 1-7 bytes;
//	          e<seed> random chunks, the last one returned together with io.EOF;
//	          z<seed> random chunks with (0, nil) reads in between
//
// trace: the pieces of the calls joined by ';' (hex-encoded on the line):
//
//	T:<c> delimiter   T=<value>   T!<error>   M1 / M0
//	D=<value>   D!<error> (stream layer)   D?<unmarshal error>=<what the target holds>
//	values as in decode.go (renderDec); errors: EOF, UEOF, syntax, notvalue, comma, colon, type:<kind>@<offset>, other
//
// enc: one Encoder with SetEscapeHTML(esc), SetIndent(prefix, indent), one Encode per value (wire format of
// enc.go); <written> is everything it wrote, <flags> one character per call (0 = nil, 1 = error).

import (
	"bytes"
	"errors"
	"io"
	"reflect"
	"strconv"
	"strings"

	ijson "github.com/evanphx/json-patch/v5/internal/json"
)

type chunkReader struct {
	data    []byte
	pos     int
	mode    byte
	r       *rng
	stalled bool
}

func (c *chunkReader) Read(p []byte) (int, error) {
	if len(p) == 0 {
		return 0, nil
	}
	left := len(c.data) - c.pos
	if left == 0 {
		return 0, io.EOF
	}
	n := left
	switch c.mode {
	case '1':
		n = 1
	case 'r', 'e', 'z':
		n = 1 + c.r.n(7)
		if c.mode == 'z' && !c.stalled && c.r.chance(1, 3) {
			c.stalled = true
			return 0, nil
		}
		c.stalled = false
	}
	if n > left {
		n = left
	}
	if n > len(p) {
		n = len(p)
	}
	copy(p, c.data[c.pos:c.pos+n])
	c.pos += n
	if c.mode == 'e' && c.pos == len(c.data) {
		return n, io.EOF
	}
	return n, nil
}

func newChunkReader(data []byte, chunking string) io.Reader {
	if chunking == "" {
		chunking = "w"
	}
	seed, _ := strconv.ParseUint(chunking[1:], 10, 64)
	return &chunkReader{data: data, mode: chunking[0], r: &rng{s: seed*0x9e3779b97f4a7c15 + 1}}
}

func streamErrClass(err error) (string, bool) {
	// the class, and whether it is an error of the stream layer (as opposed to unmarshal's)
	if err == io.EOF {
		return "EOF", true
	}
	if err == io.ErrUnexpectedEOF {
		return "UEOF", true
	}
	var se *ijson.SyntaxError
	if errors.As(err, &se) {
		switch se.Error() {
		case "not at beginning of value":
			return "notvalue", true
		case "expected comma after array element":
			return "comma", true
		case "expected colon after object key":
			return "colon", true
		}
		return "syntax", true
	}
	return renderDecErr(err), false
}

func streamTarget(c byte) interface{} {
	switch c {
	case 'a':
		return new(interface{})
	case 's':
		return new(string)
	case 'r':
		return new(ijson.RawMessage)
	case 'p':
		return new(*ijson.RawMessage)
	case 'm':
		return new(map[string]interface{})
	case 'l':
		return new([]interface{})
	case 'k':
		return new(map[string]*lazyLike)
	case 'q':
		return new([]ijson.RawMessage)
	}
	return nil
}

const streamTargets = "asrpmlkq"

func decStreamObs(input []byte, program string, chunking string) string {
	return guarded(func() string {
		dec := ijson.NewDecoder(newChunkReader(input, chunking))
		dec.UseNumber()
		parts := make([]string, 0, len(program))
		for i := 0; i < len(program); i++ {
			switch c := program[i]; c {
			case 'T':
				tok, err := dec.Token()
				if err != nil {
					cl, _ := streamErrClass(err)
					parts = append(parts, "T!"+cl)
				} else if d, ok := tok.(ijson.Delim); ok {
					parts = append(parts, "T:"+string(rune(d)))
				} else {
					parts = append(parts, "T="+renderDec(reflect.ValueOf(&tok).Elem()))
				}
			case 'M':
				if dec.More() {
					parts = append(parts, "M1")
				} else {
					parts = append(parts, "M0")
				}
			default:
				tgt := streamTarget(c)
				if tgt == nil {
					return "err:-n"
				}
				err := dec.Decode(tgt)
				val := renderDec(reflect.ValueOf(tgt).Elem())
				if err == nil {
					parts = append(parts, "D="+val)
				} else if cl, layer := streamErrClass(err); layer {
					parts = append(parts, "D!"+cl)
				} else {
					parts = append(parts, "D?"+cl+"="+val)
				}
			}
		}
		return hx([]byte(strings.Join(parts, ";")))
	})
}

func emitDecStream(id string, input []byte, program, chunking string) {
	emit("STREAM %s dec %s %s %s => %s", id, hx(input), hx([]byte(program)), chunking, decStreamObs(input, program, chunking))
}

// a flat container of mixed scalars: every element / member is a Decode target candidate
func flatContainer(r *rng) *jv {
	if r.chance(1, 2) {
		return &jv{kind: kArr, arr: []*jv{jnum("1"), jstr("two"), jnum("3.5"), {kind: kObj, keys: []string{"A"}, vals: []*jv{jnum("4")}}, jnull(), {kind: kArr, arr: []*jv{jstr("x")}}}}
	}
	return &jv{kind: kObj, keys: []string{"a", "b", "c", "d"}, vals: []*jv{jnum("1"), jstr("two"), {kind: kArr, arr: []*jv{jnum("3")}}, jnull()}}
}

func genStreamInput(r *rng) []byte {
	c := cfgFor(r)
	var sb bytes.Buffer
	k := 1 + r.n(3)
	if r.chance(1, 12) {
		k = 0
	}
	for ; k > 0; k-- {
		var v *jv
		switch r.n(6) {
		case 0, 1:
			v = flatContainer(r)
		case 2:
			// scalars at the top level: their end is only known from the next byte (or the end of the input)
			v = []*jv{jnum(r.pick(numPool)), jstr(r.pick(strPool)), jnull(), {kind: kBool, b: r.chance(1, 2)}}[r.n(4)]
		default:
			v = genValue(r, c, 0)
		}
		t := spell{r.n(3), r}.text(v)
		if len(t) > 240 {
			t = spell{2, r}.text(flatContainer(r))
		}
		sb.Write(t)
		sb.WriteString(r.pick([]string{" ", "\n", "", "\t \r\n", " "}))
	}
	t := sb.Bytes()
	switch r.n(10) {
	case 0:
		// truncated
		if len(t) > 0 {
			t = t[:r.n(len(t))]
		}
	case 1, 2:
		t = corrupt(r, t)
	case 3:
		t = append(t, []byte(r.pick([]string{"x", "]", "}", ",", ":", "\"", "tru", "-", "1.", "[", "{\"a\"", "  "}))...)
	case 4:
		if r.chance(1, 3) {
			t = []byte(r.pick(handMade))
			if len(t) > 240 {
				t = []byte("[1]")
			}
		}
	}
	return t
}

func genProgram(r *rng) string {
	n := 1 + r.n(14)
	var sb strings.Builder
	switch r.n(6) {
	case 0:
		// tokens to the end (and beyond)
		n = 4 + r.n(24)
		for i := 0; i < n; i++ {
			sb.WriteByte('T')
		}
	case 1:
		// values only
		n = 1 + r.n(5)
		for i := 0; i < n; i++ {
			sb.WriteByte(streamTargets[r.n(2)*r.n(len(streamTargets))])
		}
	default:
		// interleaved: mostly tokens, so that the program gets inside the containers
		for i := 0; i < n; i++ {
			switch k := r.n(10); {
			case k < 5:
				sb.WriteByte('T')
			case k < 7:
				sb.WriteByte('M')
			case k < 9:
				sb.WriteByte("as"[r.n(2)])
			default:
				sb.WriteByte(streamTargets[r.n(len(streamTargets))])
			}
		}
	}
	return sb.String()
}

func genChunking(r *rng) string {
	switch r.n(6) {
	case 0:
		return "w"
	case 1:
		return "1"
	case 2, 3:
		return "r" + strconv.Itoa(r.n(1000))
	case 4:
		return "e" + strconv.Itoa(r.n(1000))
	}
	return "z" + strconv.Itoa(r.n(1000))
}

// ---------- Encoder ----------

func encStreamObs(esc bool, prefix, indent string, trees [][]byte) string {
	vals := make([]interface{}, len(trees))
	for i, t := range trees {
		w := &wireReader{b: t}
		vals[i] = w.value(0)
		if w.bad || w.pos != len(t) {
			return ""
		}
	}
	return guarded(func() string {
		var buf bytes.Buffer
		enc := ijson.NewEncoder(&buf)
		enc.SetEscapeHTML(esc)
		enc.SetIndent(prefix, indent)
		flags := make([]byte, len(vals))
		for i, v := range vals {
			flags[i] = '0'
			if err := enc.Encode(v); err != nil {
				flags[i] = '1'
			}
		}
		fl := string(flags)
		if fl == "" {
			fl = "-"
		}
		return "ok:" + hx(buf.Bytes()) + " " + fl
	})
}

func emitEncStream(id string, esc bool, prefix, indent string, trees [][]byte) {
	res := encStreamObs(esc, prefix, indent, trees)
	if res == "" {
		return
	}
	hs := make([]string, len(trees))
	for i, t := range trees {
		hs[i] = hx(t)
	}
	ws := strings.Join(hs, ",")
	if ws == "" {
		ws = "-"
	}
	emit("STREAM %s enc %s %s %s %s => %s", id, b01(esc), hx([]byte(prefix)), hx([]byte(indent)), ws, res)
}

func genEncStream(r *rng, id string) {
	n := 1 + r.n(3)
	trees := make([][]byte, n)
	for i := range trees {
		_, t := genEncTree(r)
		if r.chance(1, 2) {
			// dynamic values, the usual payload of an Encoder
			var sb strings.Builder
			genAnyTree(r, &sb, 0, r.chance(1, 6))
			t = sb.String()
		}
		trees[i] = []byte(t)
	}
	prefix, indent := "", ""
	switch r.n(4) {
	case 1:
		indent = r.pick([]string{" ", "  ", "\t", "ab"})
	case 2:
		prefix = r.pick([]string{">", "  ", "//"})
	case 3:
		prefix, indent = r.pick([]string{">", " ", "#\t"}), r.pick([]string{" ", "\t", "--"})
	}
	emitEncStream(id, r.chance(1, 2), prefix, indent, trees)
}

// stream `streamprog`; `deep`: also the six cases at the scanner's nesting limit (first shard of a seed only: the
// list-based decoder model is quadratic on such texts, about a second each)
func streamProg(r *rng, n int, pfx string, deep bool) {
	if deep {
		// the nesting limit inside readValue (the Token path has none of its own: delimiters are not scanned, every
		// scalar is read by a fresh scan): depth 10000 / 10001, also entered by Token first
		k := 0
		for _, d := range []int{10000, 10001} {
			for _, prog := range []string{"aa", "TTaT", "TTTTTTTT"} {
				emitDecStream(pfx+"deep"+strconv.Itoa(k), nest("[", "]", d), prog, []string{"w", "r7", "e3"}[k%3])
				k++
			}
		}
	}
	for i := 0; i < n; i++ {
		id := pfx + strconv.Itoa(i)
		if r.chance(1, 6) {
			genEncStream(r, id)
			continue
		}
		input := genStreamInput(r)
		prog := genProgram(r)
		emitDecStream(id, input, prog, genChunking(r))
		if r.chance(1, 8) {
			// the same case under another chunking: the traces must be the same (both are compared with one model)
			emitDecStream(id+"c", input, prog, genChunking(r))
		}
	}
}

func replayStream(id string, f []string) {
	// f = STREAM id kind …
	switch {
	case len(f) == 6 && f[2] == "dec":
		emitDecStream(id, unhx(f[3]), string(unhx(f[4])), f[5])
	case len(f) == 7 && f[2] == "enc":
		var trees [][]byte
		if f[6] != "-" {
			for _, h := range strings.Split(f[6], ",") {
				trees = append(trees, unhx(h))
			}
		}
		emitEncStream(id, f[3] == "1", string(unhx(f[4])), string(unhx(f[5])), trees)
	}
}
