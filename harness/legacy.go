package main

// Streams for the legacy root package (v4 API), built from a staged copy of the
// working tree's root *.go files.

import (
	"bytes"
	"fmt"
	"strings"

	legacy "github.com/evanphx/json-patch"
)

func lobs(outb []byte, err error) string { return obsOf(outb, err) }

func callLApply(neg bool, limit int64, doc, patch []byte) string {
	return guarded(func() string {
		legacy.SupportNegativeIndices = neg
		legacy.AccumulatedCopySizeLimit = limit
		p, err := legacy.DecodePatch(patch)
		if err != nil {
			return "derr"
		}
		return lobs(p.Apply(doc))
	})
}

func callLMerge(d, p []byte) string {
	return guarded(func() string { return lobs(legacy.MergePatch(d, p)) })
}
func callLMergeMerge(a, b []byte) string {
	return guarded(func() string { return lobs(legacy.MergeMergePatches(a, b)) })
}
func callLCreate(a, b []byte) string {
	return guarded(func() string { return lobs(legacy.CreateMergePatch(a, b)) })
}
func callLEqual(a, b []byte) string {
	return guarded(func() string {
		if legacy.Equal(a, b) {
			return "t"
		}
		return "f"
	})
}

func emitLApply(id string, neg bool, limit int64, doc, patch []byte, ops []opSpec) {
	obs := callLApply(neg, limit, doc, patch)
	extra := ""
	if strings.HasPrefix(obs, "err:") && len(ops) > 1 {
		for k := 1; k <= len(ops); k++ {
			res := callLApply(neg, limit, doc, spell{1, nil}.patchText(ops[:k]))
			if !strings.HasPrefix(res, "ok:") {
				extra = " trunc=" + res
				break
			}
		}
	}
	emit("LAPPLY %s %s %d %s %s => %s%s", id, b01(neg), limit, hx(doc), hx(patch), obs, extra)
}

func streamLegacy(stream string, r *rng, n int, pfx string) {
	for i := 0; i < n; i++ {
		id := fmt.Sprintf("%s%d", pfx, i)
		c := cfgFor(r)
		switch stream {
		case "legacy-apply", "legacy-limit":
			o := aopts{neg: r.chance(3, 4), esc: true}
			// pointers relative to the evolving document, computed with the v5 library
			ac := genApplyCase(r, c, o, r.n(3), r.n(3), 5)
			var limit int64
			if stream == "legacy-limit" {
				limit = int64(1 + r.n(60))
			}
			emitLApply(id, o.neg, limit, ac.doc, ac.patch, ac.ops)
		case "legacy-merge":
			c.nullW = 2 + r.n(3)
			var d *jv
			if r.chance(1, 8) {
				d = genValue(r, c, 0)
			} else {
				d = genObj(r, c, 0)
			}
			p := genMergePatch(r, d, c, 0)
			td, tp := spell{r.n(3), r}.text(d), spell{r.n(3), r}.text(p)
			emit("LMERGE %s %s %s => %s", id, hx(td), hx(tp), callLMerge(td, tp))
		case "legacy-compose":
			c.nullW = 2 + r.n(3)
			d := genObj(r, c, 0)
			p1 := genMergePatch(r, d, c, 0)
			p2 := genMergePatch(r, p1, c, 0)
			if r.chance(1, 2) {
				p2 = genMergePatch(r, d, c, 0)
			}
			t1, t2, td := spell{r.n(3), r}.text(p1), spell{r.n(3), r}.text(p2), spell{r.n(3), r}.text(d)
			comb := callLMergeMerge(t1, t2)
			seq := "err:-n"
			if b, ok := okBytes(callLMerge(td, t1)); ok {
				seq = callLMerge(b, t2)
			}
			app := "err:-n"
			if b, ok := okBytes(comb); ok {
				app = callLMerge(td, b)
			}
			emit("LCOMPOSE %s %s %s %s => %s %s %s", id, hx(t1), hx(t2), hx(td), comb, seq, app)
		case "legacy-create":
			c.plain = true // float64 domain: small integers only
			if r.chance(2, 3) {
				c.nullW = 0
			}
			a := genObj(r, c, 0)
			b := mutateValue(r, a, c)
			if r.chance(1, 8) {
				b = a.clone()
			}
			if r.chance(1, 10) {
				b = genValue(r, c, 0)
			}
			ta, tb := spell{r.n(3), r}.text(a), spell{r.n(3), r}.text(b)
			pobs := callLCreate(ta, tb)
			mobs := "err:-n"
			if pb, ok := okBytes(pobs); ok {
				mobs = callLMerge(ta, pb)
			}
			emit("LCREATE %s %s %s => %s %s", id, hx(ta), hx(tb), pobs, mobs)
		case "legacy-equal":
			a := genContainer(r, c)
			var b *jv
			switch r.n(4) {
			case 0:
				b = a.clone()
			case 1:
				b = shuffleMembers(r, a.clone())
			default:
				b = mutateValue(r, a, c)
			}
			ta, tb := spell{r.n(2), r}.text(a), spell{r.n(2), r}.text(b)
			emit("LEQUAL %sa %s %s => %s", id, hx(ta), hx(tb), callLEqual(ta, tb))
			emit("LEQUAL %sb %s %s => %s", id, hx(tb), hx(ta), callLEqual(tb, ta))
		case "legacy-bytes":
			a, b := genText(r), genText(r)
			if len(a) > 3000 && len(b) > 3000 {
				b = []byte("[]")
			}
			switch r.n(5) {
			case 0:
				emit("LEQUAL %s %s %s => %s", id, hx(a), hx(b), callLEqual(a, b))
			case 1:
				emit("LMERGE %s %s %s => %s", id, hx(a), hx(b), callLMerge(a, b))
			case 2:
				pobs := callLCreate(a, b)
				mobs := "err:-n"
				if pb, ok := okBytes(pobs); ok {
					mobs = callLMerge(a, pb)
				}
				emit("LCREATE %s %s %s => %s %s", id, hx(a), hx(b), pobs, mobs)
			case 3:
				td := []byte("{}")
				comb := callLMergeMerge(a, b)
				seq := "err:-n"
				if x, ok := okBytes(callLMerge(td, a)); ok {
					seq = callLMerge(x, b)
				}
				app := "err:-n"
				if x, ok := okBytes(comb); ok {
					app = callLMerge(td, x)
				}
				emit("LCOMPOSE %s %s %s %s => %s %s %s", id, hx(a), hx(b), hx(td), comb, seq, app)
			default:
				docs := []string{"null", "[null]", "{\"\":null}", "[[null]]", "{\"a\":[null,{\"\":1}]}", "1", " [1]", "{}", "[]", string(a)}
				doc := []byte(r.pick(docs))
				v, _ := parseJV([]byte(`{"a":[null]}`))
				var ops []opSpec
				for j := r.n(4); j >= 0; j-- {
					op := genOp(r, v, c)
					if r.chance(1, 5) {
						op.value = nil
					}
					if r.chance(1, 6) {
						op.path = ""
					}
					ops = append(ops, op)
				}
				patch := spell{r.n(3), r}.patchText(ops)
				if r.chance(1, 5) {
					patch = b
				}
				emitLApply(id, r.chance(1, 2), 0, doc, patch, nil)
			}
		}
	}
}

var _ = bytes.Equal
