package main

// Streams for the legacy root package (v4 API), built from a staged copy of the
// working tree's root *.go files.

import (
	"bytes"
	"errors"
	"fmt"
	"sort"
	"strconv"
	"strings"

	legacy "github.com/evanphx/json-patch"
)

// cumulative copy totals, learnt from the legacy library's own error values
func legacyCopyTotals(neg bool, doc, patch []byte) []int64 {
	var totals []int64
	limit := int64(1)
	for len(totals) < 16 {
		var acc int64 = -1
		guarded(func() string {
			legacy.SupportNegativeIndices = neg
			legacy.AccumulatedCopySizeLimit = limit
			p, err := legacy.DecodePatch(patch)
			if err != nil {
				return ""
			}
			_, err = p.Apply(doc)
			var ce *legacy.AccumulatedCopySizeError
			if errors.As(err, &ce) {
				s := ce.Error()
				if i := strings.Index(s, "copy is "); i >= 0 {
					rest := s[i+len("copy is "):]
					if j := strings.Index(rest, ","); j >= 0 {
						acc, _ = strconv.ParseInt(rest[:j], 10, 64)
					}
				}
			}
			return ""
		})
		if acc <= 0 {
			return totals
		}
		totals = append(totals, acc)
		limit = acc
	}
	return totals
}

// hand-made documents and operations that exercise the corners of the legacy code:
// nil nodes, nil raw messages, raw `null` copies, lazily parsed (hence re-sorted) objects,
// duplicate names, escapes, operations with missing or ill-typed members
var awkDocs = []string{
	`{"a":{"z":1,"b":[1,2,{"y":null,"x":"<&>"}],"a":2},"n":null,"s":"\u2028 \u00e9","k":[[],{}]}`,
	`{"a":{"z":1,"b":[1,2,{"y":null,"x":"<&>"}],"a":2},"n":null,"s":"\u2028 \u00e9","k":[[],{}]}`,
	" \r\n[ {\"b\":1,\"a\":2, \"b\":3}, null, [null], \"x\", {\"a\":{\"b\":[0]}} ]",
	"\t[[1,2,3],{\"b\":[4,5]},{\"a\":{\"z\":0,\"b\":[7,8,9]}}]",
	`{"a":{"b":{"c":{"d":1}}},"":{"":0},"~":1,"/":2,"a/b":3,"m~n":4}`,
	`null`, `{}`, `[]`, ` null `, "\r[]", `1`, `"s"`,
	`{"é":1,"e":2,"E":3,"":4,"\u00e9":5,"a":{"b":[{"q":1,"p":2}]}}`,
	`{"a":[1,2,3],"b":{"q":[{"z":1,"y":2}],"b":[1]},"n":{"x":null}}`,
	"{\"a\" : { \"b\" : [ 1 , { \"k\\u0031\" : \"\\u003c\" , \"k1\" : \"<\" } ] , \"\xff\" : \"\xfe\" } }",
}

var awkOps = []string{
	`{"op":"add","path":"/n2","value":null}`,
	`{"op":"add","path":"/a/nn","value":null}`,
	`{"op":"add","path":"/0/nn","value":null}`,
	`{"op":"copy","from":"/n2","path":"/m"}`,
	`{"op":"copy","from":"/a/nn","path":"/a/mm"}`,
	`{"op":"copy","from":"/0/nn","path":"/0/mm"}`,
	`{"op":"copy","from":"/n","path":"/m"}`,
	`{"op":"copy","from":"/nope","path":"/m"}`,
	`{"op":"add","path":"/m/x","value":1}`,
	`{"op":"add","path":"/a/mm/x","value":1}`,
	`{"op":"test","path":"/m","value":null}`,
	`{"op":"test","path":"/m"}`,
	`{"op":"test","path":"/m","value":{}}`,
	`{"op":"test","path":"/m/x","value":null}`,
	`{"op":"test","path":"/a/mm/x"}`,
	`{"op":"remove","path":"/m/x"}`,
	`{"op":"replace","path":"/m/x","value":2}`,
	`{"op":"move","from":"/m","path":"/mv"}`,
	`{"op":"move","from":"/m/x","path":"/mv"}`,
	`{"op":"copy","from":"/m","path":"/m2"}`,
	`{"op":"copy","from":"/a","path":"/a/self"}`,
	`{"op":"copy","from":"/a/b","path":"/a/b/-"}`,
	`{"op":"copy","from":"/a","path":"/a/b/0"}`,
	`{"op":"copy","from":"/a/b/2","path":"/a/b/2/c"}`,
	`{"op":"copy","from":"/0","path":"/0/c"}`,
	`{"op":"copy","from":"/2","path":"/2/a/b/1"}`,
	`{"op":"copy","from":"/a","path":"/c"}`,
	`{"op":"copy","from":"/k","path":"/k/1/kk"}`,
	`{"op":"move","from":"/a/b","path":"/a/bb"}`,
	`{"op":"move","from":"/a","path":"/a/b"}`,
	`{"op":"test","path":"/a","value":{"a":2,"b":[1,2,{"x":"<&>","y":null}],"z":1}}`,
	`{"op":"test","path":"/a","value":{"a":2,"b":[1,2,{"x":"\u003c&>","y":null}],"z":1}}`,
	`{"op":"test","path":"/a/b/2","value":{"y":null,"x":"<&>"}}`,
	`{"op":"test","path":"/a/b/2","value":{"x":"<&>"}}`,
	`{"op":"test","path":"/a/b","value":[1,2,{"y":null,"x":"<&>"}]}`,
	`{"op":"test","path":"/a/b","value":[1, 2.0,{"y":null,"x":"<&>"}]}`,
	`{"op":"test","path":"/0","value":{"a":2,"b":3}}`,
	`{"op":"test","path":"/0","value":{"a":2,"b":1}}`,
	`{"op":"test","path":"/0","value":{"b":3,"a":2,"b":1}}`,
	`{"op":"test","path":"/2","value":[null]}`,
	`{"op":"test","path":"/2/0","value":null}`,
	`{"op":"test","path":"/2/0"}`,
	`{"op":"test","path":"/1"}`,
	`{"op":"test","path":"/1","value":0}`,
	`{"op":"test","path":"/s","value":"\u2028 é"}`,
	"{\"op\":\"test\",\"path\":\"/s\",\"value\":\"\xe2\x80\xa8 \\u00e9\"}",
	`{"op":"test","path":"/k","value":[[],{}]}`,
	`{"op":"test","path":"/k","value":[ [ ] , { } ]}`,
	`{"op":"test","path":"/n","value":null}`,
	`{"op":"test","path":"/n"}`,
	`{"op":"test","path":"/n","value":0}`,
	`{"op":"test","path":"/nope","value":null}`,
	`{"op":"test","path":"/nope"}`,
	`{"op":"test","path":"/nope","value":1}`,
	`{"op":"test","path":"/nope/x","value":null}`,
	`{"op":"test","path":"","value":null}`,
	`{"op":"test","path":""}`,
	`{"op":"test","path":"","value":{}}`,
	`{"op":"test","path":"","value":[]}`,
	`{"op":"test","path":"","value":{"a":[1,2,3],"b":{"q":[{"y":2,"z":1}],"b":[1]},"n":{"x":null}}}`,
	`{"op":"test","path":"","value":[{"a":2,"b":3},null,[null],"x",{"a":{"b":[0]}}]}`,
	`{"op":"replace","path":"","value":{"z":{"b":1,"a":[null]},"a":null}}`,
	`{"op":"replace","path":"","value":[{"b":1,"a":2},null]}`,
	`{"op":"replace","path":"","value":[]}`,
	`{"op":"replace","path":"","value":{}}`,
	`{"op":"replace","path":"","value":1}`,
	`{"op":"replace","path":"","value":"s"}`,
	`{"op":"replace","path":"","value":null}`,
	`{"op":"replace","path":""}`,
	`{"op":"add","path":"","value":{}}`,
	`{"op":"remove","path":""}`,
	`{"op":"move","from":"","path":"/a"}`,
	`{"op":"copy","from":"","path":"/a"}`,
	`{"op":"copy","from":"/a","path":""}`,
	`{"op":"add","path":1,"value":1}`,
	`{"op":"remove","path":1}`,
	`{"op":"replace","path":1,"value":1}`,
	`{"op":"replace","path":null,"value":1}`,
	`{"op":"test","path":null}`,
	`{"op":"test","path":[]}`,
	`{"op":"move","from":2,"path":"/a"}`,
	`{"op":"move","from":"/a","path":2}`,
	`{"op":"move","from":"/a"}`,
	`{"op":"move","path":"/a"}`,
	`{"op":"copy","from":"/a"}`,
	`{"op":"copy","from":"/a","path":7}`,
	`{"op":"copy","from":{},"path":"/a"}`,
	`{"op":"copy","path":"/a"}`,
	`{"op":1}`, `{}`, `null`, `{"op":null,"path":"/a"}`, `{"op":"Add","path":"/a","value":1}`, `{"path":"/a"}`,
	`{"op":"remove","op":"add","path":"/dup","value":1}`,
	`{"op":"add","path":"/a/b/-"}`,
	`{"op":"add","path":"/nv"}`,
	`{"op":"replace","path":"/a/z"}`,
	`{"op":"replace","path":"/a/new","value":1}`,
	`{"op":"replace","path":"/a/b/0"}`,
	`{"op":"add","path":"/nv/x","value":1}`,
	`{"op":"add","path":"/a/z/q","value":1}`,
	`{"op":"add","path":"/n/x","value":1}`,
	`{"op":"add","path":"/zz/yy","value":1}`,
	`{"op":"remove","path":"/n/x"}`,
	`{"op":"remove","path":"/n"}`,
	`{"op":"remove","path":"/nope"}`,
	`{"op":"add","path":"/a/b/-1","value":"m1"}`,
	`{"op":"add","path":"/a/b/-3","value":"m3"}`,
	`{"op":"add","path":"/a/b/-4","value":"m4"}`,
	`{"op":"add","path":"/a/b/-5","value":"m5"}`,
	`{"op":"add","path":"/a/b/3","value":"p3"}`,
	`{"op":"add","path":"/a/b/4","value":"p4"}`,
	`{"op":"add","path":"/a/b/+1","value":"pp"}`,
	`{"op":"add","path":"/a/b/01","value":"p01"}`,
	`{"op":"add","path":"/a/b/x","value":"px"}`,
	`{"op":"add","path":"/a/b/","value":"pe"}`,
	`{"op":"add","path":"/a/b/9223372036854775808","value":"big"}`,
	`{"op":"add","path":"/a/b/-9223372036854775808","value":"big"}`,
	`{"op":"remove","path":"/a/b/-1"}`,
	`{"op":"remove","path":"/a/b/-3"}`,
	`{"op":"remove","path":"/a/b/-4"}`,
	`{"op":"remove","path":"/a/b/3"}`,
	`{"op":"remove","path":"/a/b/-"}`,
	`{"op":"remove","path":"/a/b/x"}`,
	`{"op":"replace","path":"/a/b/-1","value":"r"}`,
	`{"op":"replace","path":"/a/b/-3","value":"r"}`,
	`{"op":"replace","path":"/a/b/-4","value":"r"}`,
	`{"op":"replace","path":"/a/b/3","value":"r"}`,
	`{"op":"replace","path":"/a/b/-","value":"r"}`,
	`{"op":"test","path":"/a/b/-1","value":{"x":"<&>","y":null}}`,
	`{"op":"test","path":"/a/b/-4","value":1}`,
	`{"op":"test","path":"/a/b/3","value":1}`,
	`{"op":"test","path":"/a/b/x","value":1}`,
	`{"op":"move","from":"/a/b/0","path":"/a/b/-"}`,
	`{"op":"move","from":"/a/b/-1","path":"/a/b/0"}`,
	`{"op":"move","from":"/a/b/5","path":"/a/b/0"}`,
	`{"op":"copy","from":"/a/b/-1","path":"/a/b/-1"}`,
	`{"op":"copy","from":"/a/b/x","path":"/a/b/0"}`,
	`{"op":"copy","from":"/a/b/9","path":"/a/b/0"}`,
	`{"op":"copy","from":"/a/b/0","path":"/a/b/9"}`,
	`{"op":"add","path":"/-","value":"end"}`,
	`{"op":"add","path":"/0","value":{"b":1,"a":{"d":1,"c":2}}}`,
	`{"op":"add","path":"/0/a/e","value":3}`,
	`{"op":"remove","path":"/0"}`,
	`{"op":"remove","path":"/1"}`,
	`{"op":"replace","path":"/1","value":{"z":null,"a":null}}`,
	`{"op":"add","path":"/4/a/b/-","value":null}`,
	`{"op":"add","path":"/1/x","value":1}`,
	`{"op":"add","path":"/3/x","value":1}`,
	`{"op":"add","path":"/~1","value":"slash"}`,
	`{"op":"add","path":"/~0","value":"tilde"}`,
	`{"op":"add","path":"/~01","value":"t1"}`,
	`{"op":"add","path":"/","value":"empty"}`,
	`{"op":"add","path":"//","value":"ee"}`,
	`{"op":"remove","path":"//"}`,
	`{"op":"add","path":"/a~1b","value":"ab"}`,
	`{"op":"remove","path":"/m~0n"}`,
	`{"op":"add","path":"/\u00e9","value":"e-acute"}`,
	"{\"op\":\"add\",\"path\":\"/\xff\",\"value\":\"\xff<\"}",
	`{"op":"add","path":"/\ud800","value":"\udc00"}`,
	`{"op":"add","path":"/<k&>","value":{"<":">","\u2028":"\u2029"}}`,
	`{"op":"add","path":"/a/b/2/w","value":{"d":{"b":1,"a":1,"b":2},"c":[{"b":1,"a":1}]}}`,
	`{"op":"test","path":"/a/b/2/w/d","value":{"a":1,"b":2}}`,
	`{"op":"test","path":"/a/b/2/w","value":{"c":[{"a":1,"b":1}],"d":{"a":1,"b":2}}}`,
	`{"op":"add","path":"a","value":1}`,
	`{"op":"remove","path":"a"}`,
	`{"op":"add","path":"/a/b/c/d/e","value":1}`,
	`{"op":"replace","path":"/a/b/c/d","value":{"e":[]}}`,
	`{"op":"add","path":"/a/b/c/d/e/-","value":[]}`,
	`{"op":"test","path":"/a/b/c","value":{"d":1}}`,
	`{"op":"test","path":"/a/b/c","value":{"d":1.0}}`,
	`{"op":"test","path":"//","value":0}`,
	`{"op":"copy","from":"//","path":"/a/b/c/z"}`,
	`{"op":"test","path":"/é","value":5}`,
	`{"op":"test","path":"/\u00e9","value":1}`,
	`{"op":"copy","from":"/a/b/0","path":"/cp"}`,
	`{"op":"test","path":"/a/b/0","value":{"p":2,"q":1}}`,
	`{"op":"test","path":"/a/b/1","value":{"k1":"<"}}`,
	`{"op":"test","path":"/a/b/1","value":{"k1":"\u003c"}}`,
	`{"op":"copy","from":"/a/b/1","path":"/cp"}`,
	"{\"op\":\"copy\",\"from\":\"/a/\xff\",\"path\":\"/cp\"}",
	`{"op":"copy","from":"/a/\ufffd","path":"/cp"}`,
	`{"op":"unknown","path":"/a"}`,
}

// complete (document, patch) pairs: sequences that reach states single random operations rarely do
var awkScripts = [][2]string{
	{`{"a":1}`, `[{"op":"add","path":"/n","value":null},{"op":"copy","from":"/n","path":"/m"},{"op":"test","path":"/m/x","value":null},{"op":"test","path":"/m","value":{}},{"op":"add","path":"/k","value":1}]`},
	{`{"a":1}`, `[{"op":"add","path":"/n","value":null},{"op":"copy","from":"/n","path":"/m"},{"op":"test","path":"/m","value":null},{"op":"test","path":"/m/x"},{"op":"test","path":"/m","value":null}]`},
	{`{"a":1}`, `[{"op":"add","path":"/n","value":null},{"op":"copy","from":"/n","path":"/m"},{"op":"test","path":"/m/x","value":null},{"op":"add","path":"/m/x","value":1}]`},
	{`{"a":1}`, `[{"op":"add","path":"/n","value":null},{"op":"copy","from":"/n","path":"/m"},{"op":"test","path":"/m/x","value":null},{"op":"remove","path":"/m/x"}]`},
	{`{"a":1}`, `[{"op":"add","path":"/n","value":null},{"op":"copy","from":"/n","path":"/m"},{"op":"replace","path":"/m/x","value":1}]`},
	{`{"a":1}`, `[{"op":"add","path":"/n","value":null},{"op":"copy","from":"/n","path":"/m"},{"op":"test","path":"/m/x"},{"op":"copy","from":"/m","path":"/m3"},{"op":"move","from":"/m","path":"/q"},{"op":"test","path":"/q","value":{}},{"op":"test","path":"/m3","value":null}]`},
	{`[0]`, `[{"op":"add","path":"/-","value":null},{"op":"copy","from":"/1","path":"/-"},{"op":"test","path":"/2/x"},{"op":"test","path":"/2","value":{}},{"op":"test","path":"/1","value":null},{"op":"copy","from":"/2/x","path":"/-"}]`},
	{`{"a":1}`, `[{"op":"replace","path":"","value":{"b":{"d":1,"c":2},"a":{"z":1,"y":2}}},{"op":"add","path":"/b/e","value":3},{"op":"copy","from":"/b","path":"/c"},{"op":"copy","from":"/a","path":"/d"}]`},
	{`{"a":1}`, `[{"op":"replace","path":"","value":[{"d":1,"c":2},[3]]},{"op":"add","path":"/1/-","value":{"z":1,"a":2}},{"op":"copy","from":"/1/1","path":"/0/e"},{"op":"test","path":"","value":[{"c":2,"d":1,"e":{"a":2,"z":1}},[3,{"a":2,"z":1}]]}]`},
	{` [1,2]`, `[{"op":"add","path":"/-1","value":"x"},{"op":"add","path":"/-4","value":"y"},{"op":"remove","path":"/-4"},{"op":"replace","path":"/-3","value":"z"},{"op":"test","path":"/-1","value":"x"}]`},
	{`{"z":{"y":1,"x":2},"a":[{"c":1,"b":2}],"m":{"q":{"s":1,"r":2}}}`, `[{"op":"test","path":"","value":{"m":{"q":{"r":2,"s":1}},"a":[{"b":2,"c":1}],"z":{"x":2,"y":1}}}]`},
	{`{"z":{"y":1,"x":2},"a":[{"c":1,"b":2}],"m":{"q":{"s":1,"r":2}}}`, `[{"op":"test","path":"/m","value":{"q":{"r":2,"s":1}}},{"op":"test","path":"/a/0/c","value":1}]`},
	{`{"z":{"y":1,"x":2,"y":3},"z2":{"y":1,"x":2,"y":3}}`, `[{"op":"test","path":"/z","value":{"x":2,"y":3}},{"op":"copy","from":"/z2","path":"/z3"}]`},
	{`{}`, `[{"op":"add","path":"/v","value":{"b":1,"a":1,"b":2}},{"op":"add","path":"/w","value":{"b":1,"a":1,"b":2}},{"op":"test","path":"/v","value":{"a":1,"b":2}}]`},
	{`{}`, `[{"op":"add","path":"/nv"},{"op":"test","path":"/nv"},{"op":"test","path":"/nv","value":null},{"op":"copy","from":"/nv","path":"/nv2"},{"op":"move","from":"/nv2","path":"/nv3"}]`},
	{`{}`, `[{"op":"add","path":"/nv"},{"op":"add","path":"/nv/x","value":1}]`},
	{`{}`, `[{"op":"add","path":"/nv"},{"op":"test","path":"/nv","value":0}]`},
	{`{"arr":[null,{"a":null}]}`, `[{"op":"test","path":"/arr/0","value":null},{"op":"test","path":"/arr/0"},{"op":"test","path":"/arr/1/a"},{"op":"test","path":"/arr/1/b"},{"op":"test","path":"/arr/1","value":{"a":null}},{"op":"test","path":"/arr","value":[null,{"a":null}]}]`},
	{`{"arr":[null,{"a":null}]}`, `[{"op":"test","path":"/arr/1","value":{}}]`},
	{`{"arr":[null,{"a":null}]}`, `[{"op":"test","path":"/arr/1","value":{"b":null}}]`},
	{`null`, `[{"op":"test","path":"/x","value":null},{"op":"test","path":"","value":{}}]`},
	{`null`, `[{"op":"add","path":"/x","value":1}]`},
	{`null`, `[{"op":"remove","path":"/x"}]`},
	{`null`, `[{"op":"replace","path":"/x","value":1}]`},
	{`null`, `[{"op":"copy","from":"/x","path":"/y"}]`},
	{`null`, `[{"op":"replace","path":"","value":{}},{"op":"add","path":"/x","value":1}]`},
	{`null`, `[{"op":"test","path":"","value":null}]`},
	{`{"a":{"b":[1,{"c":[{"e":1,"d":2}]}]}}`, `[{"op":"copy","from":"/a/b/1","path":"/a/b/1/c/0/f"},{"op":"copy","from":"/a","path":"/a/b/1/c/-"}]`},
	{`{"a":{"b":[1,{"c":[{"e":1,"d":2}]}]}}`, `[{"op":"move","from":"/a/b/1/c/0","path":"/x"},{"op":"add","path":"/x/c","value":0},{"op":"move","from":"/a/b","path":"/x/b"}]`},
	{`{"a":"< >","b":{"<":1}}`, `[{"op":"copy","from":"/a","path":"/c"},{"op":"copy","from":"/b","path":"/d"},{"op":"test","path":"/c","value":"< >"},{"op":"test","path":"/d","value":{"<":1}}]`},
	{`{"a":"< >","b":{"<":1}}`, `[{"op":"copy","from":"/a","path":"/c"},{"op":"test","path":"/c","value":"< >"}]`},
}

func awkwardCase(r *rng) (doc, patch []byte) {
	if r.chance(1, 8) {
		sc := awkScripts[r.n(len(awkScripts))]
		doc, patch = []byte(sc[0]), []byte(sc[1])
		if r.chance(1, 2) {
			// cut the script short
			if p, err := parseJV(patch); err == nil && len(p.arr) > 1 {
				p.arr = p.arr[:1+r.n(len(p.arr))]
				patch = spell{1, r}.text(p)
			}
		}
		return
	}
	doc = []byte(awkDocs[r.n(len(awkDocs))])
	n := 1 + r.n(5)
	var xs []string
	for i := 0; i < n; i++ {
		xs = append(xs, awkOps[r.n(len(awkOps))])
	}
	sep := r.pick([]string{",", ", ", " ,\n"})
	patch = []byte("[" + strings.Join(xs, sep) + "]")
	switch r.n(40) {
	case 0:
		patch = []byte("null")
	case 1:
		patch = []byte(" [ ] ")
	case 2:
		patch = []byte(r.pick([]string{"{}", "1", "[1]", "[[]]", "[\"add\"]", "[{},null,{}]", "[null]", ""}))
	}
	return
}

var awkTexts = []string{"1", "1.0", "1e0", "-0", "0", "\"a\"", "\"\\u0061\"", "\"\\u003c\"", "\"<\"", "null", " null ", "\nnull", "true", " true", "false",
	"{\"a\":1,\"a\":2}", "{\"a\":2}", "{\"a\":2,\"a\":1}", "[null]", "[ null ]", "{}", "{ }", "[]", "[ ]", "{\"a\":null}", "{\"b\":null}",
	"{\"a\":null,\"b\":null}", "{\"a\":{}}", "{\"a\":[]}", "{\"a\":[null]}", "{\"a\":[{}]}", "[[]]", "[{}]", "[1,2]", "[1, 2]", "[2,1]", "[1,2,3]",
	"{\"a\":1,\"b\":2}", "{\"b\":2,\"a\":1}", "{\"b\":2 , \"a\" : 1}", "{\"a\":1,\"b\":2,\"c\":3}", "{\"\\u0061\":1,\"b\":2}", "{\"a\":\"\\u0062\"}", "{\"a\":\"b\"}",
	"{", "}", "[1", "", " ", "tru", "nul", "nulll", "[1,]", "{\"a\"}", "\"\xff\"", "\"\\ufffd\"", "{\"\xff\":1}", "{\"\\ufffd\":1}", "[\"\xe2\x80\xa8\"]", "[\"\\u2028\"]",
	"{\"a\":{\"b\":{\"c\":[1,{\"d\":null}]}}}", "{\"a\":{\"b\":{\"c\":[1,{\"d\":null,\"d\":null}]}}}", "{\"a\":{\"b\":{\"c\":[1,{}]}}}", "1 ", "2", "\"\"", "\" \""}

var awkMerge = []string{
	`{"a":{"b":1,"c":{"d":null,"e":[{"f":null}]}},"n":null,"a":{"x":1}}`,
	`{"a":{"b":null,"c":{"d":1,"e":null,"z":{"q":null,"r":{"s":null}}}},"new":{"k":null,"l":{"m":null,"m":1},"o":[null,{"p":null}]}}`,
	`{"a":[{"b":null}],"c":null,"d":{"e":null}}`,
	`{"a":{"z":1,"y":2,"z":3},"b":"<&>","c":"\u2028","d":[1,  2]}`,
	`{"a":{"y":null,"w":{"v":null}},"b":null,"e":{"z":1,"a":{"n":null,"b":1}}}`,
	`{"a":null,"a":{"k":1}}`, `{"a":{"k":1},"a":null}`,
	`{"<":{">":null,"&":{"\u2028":null}}}`, `{"<":{">":1,"&":{"\u2028":1,"é":2}}}`,
	"{\"\xff\":{\"a\":null},\"\\ufffd\":null}", "{\"\xff\":{\"a\":1,\"b\":2}}",
	`{}`, `[]`, `[null,{"a":null}]`, `null`, `1`, `"s"`, `true`, ` { "a" : { } } `, `{"a":{}}`, `{"a":[]}`, `{"a":1}`, `{"a":{"b":{"c":{"d":{"e":null}}}}}`,
	`{"a":{"b":{"c":{"d":{"e":1,"f":2}}}}}`, `{"a":{"b":{"c":1}}}`, `{"a":{"b":[{"c":null}]}}`, `{"k":{"z":null,"y":{"x":null,"w":1}},"j":{"i":null}}`,
}

var awkCreate = []string{
	`{}`, `null`, `[]`, `[{}]`, `[null]`, `[{"a":1}]`, `[{"a":1},{}]`, `[{"a":2},{"b":null}]`, `[1]`, `[[]]`, `1`, `"s"`, `[`, `{`, ``,
	"\u00a0[{}]", "[{}]\u2028", "\v{}", "\v[{}]\f", " [{}] ", "\u00a0{}", "x[{}]", "[{}]x", "\xa0[{}]", "[{}]\xc2", "\u3000[{\"a\":1}]\u0085", "[{}]\xe2\x80",
	`{"a":-1,"b":-20,"c":[1,-2,{"d":-3}]}`, `{"a":-1,"b":20,"c":[1,-2,{"d":3}]}`, `{"a":{"b":{"c":1,"d":null}},"e":[],"f":"<&>"}`,
	`{"a":{"b":{"c":1,"d":2}},"e":{},"f":"\u003c&>"}`, `{"a":{"b":{}},"e":[{}],"f":null}`, `{"a":1,"a":2,"b":{"x":1,"x":2}}`, `{"a":2,"b":{"x":2}}`,
	"{\"\xff\":\"\xfe\",\"s\":\"\\ud800\"}", "{\"\\ufffd\":\"\\ufffd\",\"s\":\"\\ufffd\"}", `{"a":true,"b":false,"c":"true"}`, `{"a":false,"b":false,"c":true}`,
	`{"a":[],"b":[[]],"c":[{}],"d":[null]}`, `{"a":[null],"b":[[]],"c":[{"x":null}],"d":[]}`,
	// float64: an overflowing literal in a member shadowed by a later duplicate, in an array element, in a text that is
	// rejected anyway; zeros of both signs; spellings of one float64
	`{"a":1e400,"a":1}`, `{"a":1}`, `{"a":1.0,"b":[0,-0,{"c":0.0}]}`, `{"a":1,"b":[-0,0,{"c":-0.0}]}`, `{"a":1e0,"b":[0,0,{"c":0}]}`,
	`[{"a":1},{"b":[[{"c":-1e999}]]}]`, `[{"a":1.0},{"b":[[{"c":1}]]}]`, `[{"a":1},null]`, `[null,{"a":1e309}]`, `1e400`, `[1e400]`, `{"a":{"b":{"c":0.1}}}`,
	`{"a":{"b":{"c":1e-1}}}`, `{"a":{"b":{"c":0.10000000000000002}}}`, `{"a":-0}`, `{"a":0}`, `{"a":0.0}`, `{"a":-0.0}`, `{"a":{"b":-0}}`, `{"a":{"b":0}}`,
	`{"a":[1,2.5,1e21]}`, `{"a":[1.0,25e-1,1000000000000000000000]}`, `{"a":[1,2.5,1e21,0]}`, `{"a":1e400,"b":`, `{"a":1e400}x`,
}

func lobs(outb []byte, err error) string { return obsOf(outb, err) }

func callLApply(neg bool, limit int64, doc, patch []byte) string {
	return guarded(func() string {
		legacy.SupportNegativeIndices = neg
		legacy.AccumulatedCopySizeLimit = limit
		p, err := legacy.DecodePatch(patch)
		if err != nil {
			return "derr"
		}
		// the accessors of every decoded operation (they must return, whatever the members are) ...
		for _, op := range p {
			op.Kind()
			_, _ = op.Path()
			_, _ = op.From()
			_, _ = op.ValueInterface()
		}
		outb, err := p.Apply(doc)
		// ... and ApplyIndent, which must succeed exactly when Apply does and return the same value
		if len(patch)%4 == 0 {
			ib, ierr := p.ApplyIndent(doc, " \t")
			if (ierr == nil) != (err == nil) {
				return "err:indent-differs"
			}
			if ierr == nil && len(outb) > 0 {
				var cb bytes.Buffer
				if cerr := stdCompact(&cb, ib); cerr != nil || !bytes.Equal(cb.Bytes(), outb) {
					return "err:indent-differs"
				}
			}
		}
		return lobs(outb, err)
	})
}

func callLMerge(d, p []byte) string {
	scribbleFirst(legacy.MergePatch, d, p)
	return guarded(func() string { return lobs(legacy.MergePatch(d, p)) })
}
func callLMergeMerge(a, b []byte) string {
	scribbleFirst(legacy.MergeMergePatches, a, b)
	return guarded(func() string { return lobs(legacy.MergeMergePatches(a, b)) })
}
func callLCreate(a, b []byte) string {
	scribbleFirst(legacy.CreateMergePatch, a, b)
	return guarded(func() string { return lobs(legacy.CreateMergePatch(a, b)) })
}
func callLEqual(a, b []byte) string {
	return guarded(func() string {
		if legacy.Equal(a, b) {
			return "t"
		}
		return "f"
	})
}

func emitLApply(id string, neg bool, limit int64, doc, patch []byte, ops []opSpec) {
	obs := callLApply(neg, limit, doc, patch)
	extra := ""
	if strings.HasPrefix(obs, "err:") && len(ops) > 1 {
		for k := 1; k <= len(ops); k++ {
			res := callLApply(neg, limit, doc, spell{1, nil}.patchText(ops[:k]))
			if !strings.HasPrefix(res, "ok:") {
				extra = " trunc=" + res
				break
			}
		}
	}
	emit("LAPPLY %s %s %d %s %s => %s%s", id, b01(neg), limit, hx(doc), hx(patch), obs, extra)
}

func streamLegacy(stream string, r *rng, n int, pfx string) {
	for i := 0; i < n; i++ {
		id := fmt.Sprintf("%s%d", pfx, i)
		c := cfgFor(r)
		switch stream {
		case "legacy-apply", "legacy-limit":
			o := aopts{neg: r.chance(3, 4), esc: true}
			var doc, patch []byte
			var ops []opSpec
			if r.chance(1, 3) {
				doc, patch = awkwardCase(r)
			} else {
				// pointers relative to the evolving document, computed with the v5 library
				ac := genApplyCase(r, c, o, r.n(3), r.n(3), 5)
				doc, patch, ops = ac.doc, ac.patch, ac.ops
				if stream == "legacy-limit" {
					hasCopy := false
					for _, op := range ops {
						if op.op == "copy" {
							hasCopy = true
						}
					}
					if docv, err := parseJV(doc); !hasCopy && err == nil && docv.isCon() {
						f := existingPath(r, docv)
						ops = append([]opSpec{{op: "copy", path: pickPath(r, docv, true), from: &f}}, ops...)
						patch = spell{r.n(3), r}.patchText(ops)
					}
				}
			}
			var limit int64
			if stream == "legacy-limit" {
				totals := legacyCopyTotals(o.neg, doc, patch)
				if len(totals) == 0 || r.chance(1, 10) {
					limit = int64(1 + r.n(60))
				} else {
					limit = totals[r.n(len(totals))] + int64(r.n(3)) - 1
					if limit < 1 {
						limit = 1
					}
				}
			}
			emitLApply(id, o.neg, limit, doc, patch, ops)
		case "legacy-merge":
			c.nullW = 2 + r.n(3)
			var d *jv
			if r.chance(1, 8) {
				d = genValue(r, c, 0)
			} else {
				d = genObj(r, c, 0)
			}
			p := genMergePatch(r, d, c, 0)
			td, tp := spell{r.n(3), r}.text(d), spell{r.n(3), r}.text(p)
			if r.chance(1, 6) {
				td, tp = []byte(r.pick(awkMerge)), []byte(r.pick(awkMerge))
			}
			if r.chance(1, 40) {
				tp = corrupt(r, tp)
			}
			emit("LMERGE %s %s %s => %s", id, hx(td), hx(tp), callLMerge(td, tp))
		case "legacy-compose":
			c.nullW = 2 + r.n(3)
			d := genObj(r, c, 0)
			p1 := genMergePatch(r, d, c, 0)
			p2 := genMergePatch(r, p1, c, 0)
			if r.chance(1, 2) {
				p2 = genMergePatch(r, d, c, 0)
			}
			t1, t2, td := spell{r.n(3), r}.text(p1), spell{r.n(3), r}.text(p2), spell{r.n(3), r}.text(d)
			if r.chance(1, 6) {
				t1, t2, td = []byte(r.pick(awkMerge)), []byte(r.pick(awkMerge)), []byte(r.pick(awkMerge))
			}
			comb := callLMergeMerge(t1, t2)
			seq := "err:-n"
			if b, ok := okBytes(callLMerge(td, t1)); ok {
				seq = callLMerge(b, t2)
			}
			app := "err:-n"
			if b, ok := okBytes(comb); ok {
				app = callLMerge(td, b)
			}
			emit("LCOMPOSE %s %s %s %s => %s %s %s", id, hx(t1), hx(t2), hx(td), comb, seq, app)
		case "legacy-create":
			c.plain = true // float64 domain: small integers only
			if r.chance(2, 3) {
				c.nullW = 0
			}
			a := genObj(r, c, 0)
			b := mutateValue(r, a, c)
			if r.chance(1, 8) {
				b = a.clone()
			}
			if r.chance(1, 10) {
				b = genValue(r, c, 0)
			}
			if r.chance(1, 8) { // arrays of objects
				k := r.n(4)
				a, b = &jv{kind: kArr}, &jv{kind: kArr}
				for j := 0; j < k; j++ {
					x := genObj(r, c, 1)
					a.arr = append(a.arr, x)
					b.arr = append(b.arr, mutateValue(r, x, c))
				}
				if r.chance(1, 4) {
					b.arr = append(b.arr, genObj(r, c, 1))
				}
			}
			if r.chance(1, 4) {
				b = shuffleMembers(r, b)
			}
			if r.chance(3, 5) { // float64 numbers: respelled, -0, last-ulp neighbours, overflow
				floatNumbers(r, a, b)
			}
			ta, tb := spell{r.n(3), r}.text(a), spell{r.n(3), r}.text(b)
			if r.chance(1, 6) {
				ta, tb = []byte(r.pick(awkCreate)), []byte(r.pick(awkCreate))
			}
			if r.chance(1, 40) {
				tb = corrupt(r, tb)
			}
			pobs := callLCreate(ta, tb)
			mobs := "err:-n"
			if pb, ok := okBytes(pobs); ok {
				mobs = callLMerge(ta, pb)
			}
			emit("LCREATE %s %s %s => %s %s", id, hx(ta), hx(tb), pobs, mobs)
		case "legacy-equal":
			a := genContainer(r, c)
			if r.chance(1, 6) {
				a = genValue(r, c, 0)
			}
			var b *jv
			switch r.n(4) {
			case 0:
				b = a.clone()
			case 1:
				b = shuffleMembers(r, a.clone())
			default:
				b = mutateValue(r, a, c)
			}
			ta, tb := spell{r.n(3), r}.text(a), spell{r.n(3), r}.text(b)
			if r.chance(1, 6) {
				ta, tb = []byte(r.pick(awkTexts)), []byte(r.pick(awkTexts))
			}
			if r.chance(1, 30) {
				tb = corrupt(r, tb)
				if r.chance(1, 2) {
					ta = append([]byte(nil), tb...)
				}
			}
			emit("LEQUAL %sa %s %s => %s", id, hx(ta), hx(tb), callLEqual(ta, tb))
			emit("LEQUAL %sb %s %s => %s", id, hx(tb), hx(ta), callLEqual(tb, ta))
		case "legacy-bytes":
			a, b := genText(r), genText(r)
			if len(a) > 3000 && len(b) > 3000 {
				b = []byte("[]")
			}
			switch r.n(5) {
			case 0:
				emit("LEQUAL %s %s %s => %s", id, hx(a), hx(b), callLEqual(a, b))
			case 1:
				emit("LMERGE %s %s %s => %s", id, hx(a), hx(b), callLMerge(a, b))
			case 2:
				pobs := callLCreate(a, b)
				mobs := "err:-n"
				if pb, ok := okBytes(pobs); ok {
					mobs = callLMerge(a, pb)
				}
				emit("LCREATE %s %s %s => %s %s", id, hx(a), hx(b), pobs, mobs)
			case 3:
				td := []byte("{}")
				comb := callLMergeMerge(a, b)
				seq := "err:-n"
				if x, ok := okBytes(callLMerge(td, a)); ok {
					seq = callLMerge(x, b)
				}
				app := "err:-n"
				if x, ok := okBytes(comb); ok {
					app = callLMerge(td, x)
				}
				emit("LCOMPOSE %s %s %s %s => %s %s %s", id, hx(a), hx(b), hx(td), comb, seq, app)
			default:
				docs := []string{"null", "[null]", "{\"\":null}", "[[null]]", "{\"a\":[null,{\"\":1}]}", "1", " [1]", "{}", "[]", string(a)}
				doc := []byte(r.pick(docs))
				v, _ := parseJV([]byte(`{"a":[null]}`))
				var ops []opSpec
				for j := r.n(4); j >= 0; j-- {
					op := genOp(r, v, c)
					if r.chance(1, 5) {
						op.value = nil
					}
					if r.chance(1, 6) {
						op.path = ""
					}
					ops = append(ops, op)
				}
				patch := spell{r.n(3), r}.patchText(ops)
				if r.chance(1, 5) {
					patch = b
				}
				emitLApply(id, r.chance(1, 2), 0, doc, patch, nil)
			}
		}
	}
}

// number literals that decode to the same float64, class by class (first: as Go prints it)
var floatClasses = [][]string{
	{"0.1", "1e-1", "0.10", "0.1000000000000000055511151231257827", "1E-1"},
	{"2.5", "25e-1", "2.50", "0.25e1"},
	{"1", "1.0", "1e0", "10e-1", "1.000", "0.1E+1"},
	{"100", "1e2", "1E+2", "100.0", "1.0e2", "1e+02"},
	{"1.2", "12e-1", "1.20", "1.2000000000000000001"},
	{"0", "0.0", "0e5", "0E-3", "0e99999", "1e-400", "1e-99999", "0.0e10000000000"},
	{"-0", "-0.0", "-0e0", "-1e-400", "-0.000"},
	{"1e+21", "1e21", "1000000000000000000000", "1E21", "1.0e21"},
	{"100000000000000000000", "1e20", "1E+20"},
	{"1e-7", "0.0000001", "1E-7", "1e-07", "10e-8"},
	{"0.000001", "1e-6", "1E-06"},
	{"1.2345678901234568e+29", "123456789012345678901234567890", "1.2345678901234568e29", "123456789012345680000000000000"},
	{"9007199254740992", "9007199254740993", "9007199254740992.0", "9.007199254740992e15"},
	{"9007199254740994", "9007199254740994.0"},
	{"9007199254740996", "9007199254740995", "9007199254740997"},
	{"5e-324", "4.9406564584124654e-324", "3e-324", "4.9e-324"},
	{"1e-323", "9.8813129168249309e-324"},
	{"1.7976931348623157e+308", "17976931348623157e292", "1.7976931348623158e308", "1.7976931348623157e308"},
	{"0.30000000000000004", "0.3000000000000000444"},
	{"0.3", "0.29999999999999999", "3e-1"},
	{"-2.5", "-25e-1", "-2.50"},
	{"1.0000000000000002", "1.00000000000000022"},
	{"0.10000000000000002", "0.100000000000000019"},
	{"2.5000000000000004", "2.50000000000000044"},
	{"1.0000000000000001e+21", "1.0000000000000001e21", "1000000000000000131072"},
	{"12345678", "12345678.0", "1.2345678e7"},
	{"-1e-7", "-0.0000001"},
	{"123.456", "123456e-3", "1.23456e2"},
}

// pairs of classes one ulp apart
var floatUlp = [][2]int{{0, 22}, {2, 21}, {1, 23}, {7, 24}, {12, 13}, {13, 14}, {15, 16}, {18, 19}, {5, 15}, {5, 6}}

// literals that overflow float64 (Unmarshal error)
var floatOver = []string{"1e400", "-1e999", "1.8e308", "1e309", "-1.7976931348623159e308", "1e10000000000", "2E+308", "17976931348623159e292"}

func numNodes(v *jv) map[string]*jv {
	var locs []loc
	locations(v, "", &locs)
	out := map[string]*jv{}
	for _, l := range locs {
		if l.v.kind == kNum {
			out[l.ptr] = l.v
		}
	}
	return out
}

func sortedPaths(m map[string]*jv) []string {
	var ks []string
	for k := range m {
		ks = append(ks, k)
	}
	sort.Strings(ks)
	return ks
}

// replace number literals of a and b by float64 literals: the same place of the two documents gets the same
// literal, two spellings of the same float64, two neighbours, or two unrelated ones; now and then an
// overflowing literal somewhere (at any depth)
func floatNumbers(r *rng, a, b *jv) {
	na, nb := numNodes(a), numNodes(b)
	canonOnly := r.chance(1, 2) // inside C19's domain: only the spelling Go prints
	pickLit := func(ci int) string {
		if canonOnly {
			return floatClasses[ci][0]
		}
		return r.pick(floatClasses[ci])
	}
	for _, p := range sortedPaths(na) {
		x := na[p]
		if r.chance(1, 4) {
			continue
		}
		ci := r.n(len(floatClasses))
		x.lit = pickLit(ci)
		y, ok := nb[p]
		if !ok {
			continue
		}
		switch r.n(6) {
		case 0:
			y.lit = x.lit
		case 1, 2:
			y.lit = pickLit(ci)
		case 3:
			u := floatUlp[r.n(len(floatUlp))]
			if r.chance(1, 2) {
				u[0], u[1] = u[1], u[0]
			}
			x.lit, y.lit = pickLit(u[0]), pickLit(u[1])
		case 4:
			// zero against zero, signs mixed
			x.lit, y.lit = pickLit(5+r.n(2)), pickLit(5+r.n(2))
		default:
			y.lit = pickLit(r.n(len(floatClasses)))
		}
	}
	for _, p := range sortedPaths(nb) {
		if _, ok := na[p]; !ok && r.chance(2, 3) {
			nb[p].lit = pickLit(r.n(len(floatClasses)))
		}
	}
	if r.chance(1, 12) {
		m := na
		if r.chance(1, 2) {
			m = nb
		}
		if ps := sortedPaths(m); len(ps) > 0 {
			m[ps[r.n(len(ps))]].lit = r.pick(floatOver)
		}
	}
}

var _ = bytes.Equal
