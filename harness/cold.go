package main

// Stream `cold` (C10): the FIRST calls of a process, made by many goroutines at the same instant.
//
// Everything the library caches per type or per process (encoder and field caches of the codec, pools, lazily
// initialised tables) is filled by whoever comes first; the other streams warm those caches long before their
// goroutines start.  Here every trial is a fresh process (this binary, mode `coldchild`) that does nothing before a
// barrier releases its goroutines, each of which decodes the patch and applies it; every answer must be what the
// call returns alone.  A child that dies is reported as a panic of all its calls.

import (
	"fmt"
	"os"
	"os/exec"
	"strconv"
	"strings"
	"sync"

	jsonpatch "github.com/evanphx/json-patch/v5"
)

const coldGoroutines = 16

func streamCold(r *rng, n int, pfx string) {
	self, err := os.Executable()
	if err != nil {
		fmt.Fprintln(os.Stderr, "cold: no executable path:", err)
		os.Exit(2)
	}
	for i := 0; i < n; i++ {
		o := randOpts(r)
		o.ensure = false
		c := genApplyCase(r, cfgFor(r), o, r.n(3), 1, 4)
		// a copy forces the encoder to run inside the call, not only at its end
		if v, err := parseJV(c.doc); err == nil && v.isCon() {
			f := existingPath(r, v)
			c.ops = append([]opSpec{{op: "copy", path: pickPath(r, v, true), from: &f}}, c.ops...)
			c.patch = spell{1, r}.patchText(c.ops)
		}
		id := fmt.Sprintf("%s%d", pfx, i)
		cmd := exec.Command(self, "coldchild", id, c.o.flags(), strconv.FormatInt(c.o.limit, 10), hx(c.doc), hx(c.patch))
		cmd.Env = append(os.Environ(), "GOMAXPROCS=8")
		outb, err := cmd.Output()
		lines := strings.Split(strings.TrimRight(string(outb), "\n"), "\n")
		got := 0
		for _, l := range lines {
			if strings.HasPrefix(l, "APPLY ") {
				emit("%s", l)
				got++
			}
		}
		if err != nil || got < coldGoroutines {
			// the process died (a fatal error or a panic outside recover): every missing call counts as a panic
			for g := got; g < coldGoroutines; g++ {
				emit("APPLY %sg%d %s %d - %s %s => panic", id, g, c.o.flags(), c.o.limit, hx(c.doc), hx(c.patch))
			}
		}
	}
}

// mode `coldchild <id> <flags> <limit> <doc-hex> <patch-hex>`
func coldChild(args []string) {
	if len(args) < 5 {
		os.Exit(2)
	}
	id, flags := args[0], args[1]
	limit, _ := strconv.ParseInt(args[2], 10, 64)
	doc, patch := unhx(args[3]), unhx(args[4])
	o := aopts{neg: flags[0] == '1', allow: flags[1] == '1', ensure: flags[2] == '1', esc: flags[3] == '1', limit: limit}
	start := make(chan struct{})
	var wg sync.WaitGroup
	res := make([]string, coldGoroutines)
	for g := 0; g < coldGoroutines; g++ {
		wg.Add(1)
		go func(g int) {
			defer wg.Done()
			defer func() {
				if recover() != nil {
					res[g] = "panic"
				}
			}()
			d := append([]byte(nil), doc...)
			<-start
			p, err := jsonpatch.DecodePatch(patch)
			if err != nil {
				res[g] = "derr"
				return
			}
			res[g] = obsOf(p.ApplyWithOptions(d, o.fresh()))
		}(g)
	}
	close(start)
	wg.Wait()
	for g := 0; g < coldGoroutines; g++ {
		emit("APPLY %sg%d %s %d - %s %s => %s", id, g, o.flags(), o.limit, hx(doc), hx(patch), res[g])
	}
	out.Flush()
}
