package main

// CODEC fn "enc": the reflective encoder (MarshalEscaped) on the Go values the library
// hands to it, against the literal model JP/Codec/Encode.lean.
//
//	CODEC <id> enc <esc 0|1> <tree> => ok:<hex> | err:Xn | err:-n | panic
//
// <tree> is a Go value in the wire format below (hex-encoded on the line like every byte
// field).  One character names the Go type (= the constructor of `GoVal` in the model);
// byte strings are <decimal length>:<bytes>; lists are <decimal count>:<items>.
//
//	z nil interface      t/f bool        s<str> string       n<str> json.Number
//	R nil RawMessage     r<str> RawMessage
//	Q nil *RawMessage    P pointer to a nil RawMessage        p<str> *RawMessage
//	A<T> nil []T         a<T><count>:<items> []T
//	M<T> nil map         m<T><count>:(<str key><item>)* map[string]T
//	     T: i any, l *lazy node, r RawMessage, p *RawMessage, s string
//	l nil *lazy          w<item> lazy{eRaw, raw: item}        d<item> lazy{eDoc, doc: item}
//	y<item> lazy{eAry, ary: &ary{nodes: item}}   Y lazy{eAry, ary: nil}   b lazy{which: 7}
//	D<o><count>:<str keys><count>:(<str key><item>)*   *doc with map   (o: - nil opts, 0/1 EscapeHTML)
//	E<o><count>:<str keys>                             *doc with a nil map
//	e nil *doc           g<item> &ary{nodes: item}            G nil *ary
//
// lazyNode, partialDoc and partialArray are unexported in package jsonpatch.  zLazy, zDoc and
// zAry below are field-for-field copies whose marshalling methods are copied from v5/patch.go
// (RedirectMarshalJSON, TrustMarshalJSON); they drive the same encoder paths of encode.go
// (redirMarshalerEncoder with its dropped error, marshalerTrustEncoder) as the originals.

import (
	"bytes"
	"errors"
	"strconv"
	"strings"

	jsonpatch "github.com/evanphx/json-patch/v5"
	ijson "github.com/evanphx/json-patch/v5/internal/json"
)

type zLazy struct {
	raw   *ijson.RawMessage
	doc   *zDoc
	ary   *zAry
	which int
}

type zDoc struct {
	keys []string
	obj  map[string]*zLazy
	opts *jsonpatch.ApplyOptions
}

type zAry struct {
	nodes []*zLazy
}

const (
	zRaw = iota
	zEDoc
	zEAry
)

func (n *zLazy) RedirectMarshalJSON() (any, error) {
	switch n.which {
	case zRaw:
		return n.raw, nil
	case zEDoc:
		return n.doc, nil
	case zEAry:
		return n.ary.nodes, nil
	default:
		return nil, jsonpatch.ErrUnknownType
	}
}

func (n *zDoc) TrustMarshalJSON(buf *bytes.Buffer) error {
	if n.obj == nil {
		return jsonpatch.ErrExpectedObject
	}

	if err := buf.WriteByte('{'); err != nil {
		return err
	}
	escaped := true

	if n.opts != nil {
		escaped = n.opts.EscapeHTML
	}

	for i, k := range n.keys {
		if i > 0 {
			if err := buf.WriteByte(','); err != nil {
				return err
			}
		}
		key, err := ijson.MarshalEscaped(k, escaped)
		if err != nil {
			return err
		}
		if _, err := buf.Write(key); err != nil {
			return err
		}
		if err := buf.WriteByte(':'); err != nil {
			return err
		}
		value, err := ijson.MarshalEscaped(n.obj[k], escaped)
		if err != nil {
			return err
		}
		if _, err := buf.Write(value); err != nil {
			return err
		}
	}
	if err := buf.WriteByte('}'); err != nil {
		return err
	}
	return nil
}

func (n *zAry) RedirectMarshalJSON() (interface{}, error) {
	return n.nodes, nil
}

// ---------- reading the wire format into Go values ----------

type wireReader struct {
	b   []byte
	pos int
	bad bool
}

func (w *wireReader) byte() byte {
	if w.pos >= len(w.b) {
		w.bad = true
		return 0
	}
	c := w.b[w.pos]
	w.pos++
	return c
}

func (w *wireReader) num() int {
	n, digits := 0, 0
	for {
		c := w.byte()
		if w.bad {
			return 0
		}
		if c == ':' {
			break
		}
		if c < '0' || c > '9' || digits > 8 {
			w.bad = true
			return 0
		}
		n = n*10 + int(c-'0')
		digits++
	}
	if digits == 0 {
		w.bad = true
	}
	return n
}

func (w *wireReader) str() []byte {
	n := w.num()
	if w.bad || w.pos+n > len(w.b) {
		w.bad = true
		return nil
	}
	s := append([]byte{}, w.b[w.pos:w.pos+n]...)
	w.pos += n
	return s
}

func (w *wireReader) opts() *jsonpatch.ApplyOptions {
	switch w.byte() {
	case '-':
		return nil
	case '0':
		o := jsonpatch.NewApplyOptions()
		o.EscapeHTML = false
		return o
	case '1':
		return jsonpatch.NewApplyOptions()
	}
	w.bad = true
	return nil
}

// value reads one item; the result is the Go value as an `any` (typed nil pointers stay typed)
func (w *wireReader) value(depth int) any {
	if depth > 200 {
		w.bad = true
		return nil
	}
	switch c := w.byte(); c {
	case 'z':
		return nil
	case 't':
		return true
	case 'f':
		return false
	case 's':
		return string(w.str())
	case 'n':
		return ijson.Number(w.str())
	case 'R':
		return ijson.RawMessage(nil)
	case 'r':
		return ijson.RawMessage(w.str())
	case 'Q':
		return (*ijson.RawMessage)(nil)
	case 'P':
		var m ijson.RawMessage
		return &m
	case 'p':
		m := ijson.RawMessage(w.str())
		return &m
	case 'A', 'a':
		return w.slice(c == 'A', depth)
	case 'M', 'm':
		return w.mapOf(c == 'M', depth)
	case 'l':
		return (*zLazy)(nil)
	case 'w':
		p, ok := w.value(depth + 1).(*ijson.RawMessage)
		if !ok {
			w.bad = true
		}
		return &zLazy{which: zRaw, raw: p}
	case 'd':
		d, ok := w.value(depth + 1).(*zDoc)
		if !ok {
			w.bad = true
		}
		return &zLazy{which: zEDoc, doc: d}
	case 'y':
		ns, ok := w.value(depth + 1).([]*zLazy)
		if !ok {
			w.bad = true
		}
		return &zLazy{which: zEAry, ary: &zAry{nodes: ns}}
	case 'Y':
		return &zLazy{which: zEAry}
	case 'b':
		return &zLazy{which: 7}
	case 'D', 'E':
		d := &zDoc{opts: w.opts()}
		nk := w.num()
		for i := 0; i < nk && !w.bad; i++ {
			d.keys = append(d.keys, string(w.str()))
		}
		if c == 'D' {
			d.obj = map[string]*zLazy{}
			nm := w.num()
			for i := 0; i < nm && !w.bad; i++ {
				k := string(w.str())
				v, ok := w.value(depth + 1).(*zLazy)
				if !ok {
					w.bad = true
				}
				if _, dup := d.obj[k]; dup {
					w.bad = true // a map has distinct names
				}
				d.obj[k] = v
			}
		}
		return d
	case 'e':
		return (*zDoc)(nil)
	case 'g':
		ns, ok := w.value(depth + 1).([]*zLazy)
		if !ok {
			w.bad = true
		}
		return &zAry{nodes: ns}
	case 'G':
		return (*zAry)(nil)
	}
	w.bad = true
	return nil
}

func (w *wireReader) slice(isNil bool, depth int) any {
	t := w.byte()
	n := 0
	if !isNil {
		n = w.num()
	}
	items := make([]any, 0, 4)
	for i := 0; i < n && !w.bad; i++ {
		items = append(items, w.value(depth+1))
	}
	switch t {
	case 'i':
		if isNil {
			return []any(nil)
		}
		return items
	case 'l':
		if isNil {
			return []*zLazy(nil)
		}
		xs := []*zLazy{}
		for _, it := range items {
			x, ok := it.(*zLazy)
			if !ok {
				w.bad = true
			}
			xs = append(xs, x)
		}
		return xs
	case 'r':
		if isNil {
			return []ijson.RawMessage(nil)
		}
		xs := []ijson.RawMessage{}
		for _, it := range items {
			x, ok := it.(ijson.RawMessage)
			if !ok {
				w.bad = true
			}
			xs = append(xs, x)
		}
		return xs
	case 'p':
		if isNil {
			return []*ijson.RawMessage(nil)
		}
		xs := []*ijson.RawMessage{}
		for _, it := range items {
			x, ok := it.(*ijson.RawMessage)
			if !ok {
				w.bad = true
			}
			xs = append(xs, x)
		}
		return xs
	case 's':
		if isNil {
			return []string(nil)
		}
		xs := []string{}
		for _, it := range items {
			x, ok := it.(string)
			if !ok {
				w.bad = true
			}
			xs = append(xs, x)
		}
		return xs
	}
	w.bad = true
	return nil
}

func (w *wireReader) mapOf(isNil bool, depth int) any {
	t := w.byte()
	n := 0
	if !isNil {
		n = w.num()
	}
	var keys []string
	var items []any
	seen := map[string]bool{}
	for i := 0; i < n && !w.bad; i++ {
		k := string(w.str())
		if seen[k] {
			w.bad = true
		}
		seen[k] = true
		keys = append(keys, k)
		items = append(items, w.value(depth+1))
	}
	switch t {
	case 'i':
		if isNil {
			return map[string]any(nil)
		}
		m := map[string]any{}
		for i, k := range keys {
			m[k] = items[i]
		}
		return m
	case 'l':
		if isNil {
			return map[string]*zLazy(nil)
		}
		m := map[string]*zLazy{}
		for i, k := range keys {
			x, ok := items[i].(*zLazy)
			if !ok {
				w.bad = true
			}
			m[k] = x
		}
		return m
	case 'r':
		if isNil {
			return map[string]ijson.RawMessage(nil)
		}
		m := map[string]ijson.RawMessage{}
		for i, k := range keys {
			x, ok := items[i].(ijson.RawMessage)
			if !ok {
				w.bad = true
			}
			m[k] = x
		}
		return m
	case 'p':
		if isNil {
			return map[string]*ijson.RawMessage(nil)
		}
		m := map[string]*ijson.RawMessage{}
		for i, k := range keys {
			x, ok := items[i].(*ijson.RawMessage)
			if !ok {
				w.bad = true
			}
			m[k] = x
		}
		return m
	case 's':
		if isNil {
			return map[string]string(nil)
		}
		m := map[string]string{}
		for i, k := range keys {
			x, ok := items[i].(string)
			if !ok {
				w.bad = true
			}
			m[k] = x
		}
		return m
	}
	w.bad = true
	return nil
}

func encObs(b []byte, err error) string {
	if err != nil {
		if errors.Is(err, jsonpatch.ErrExpectedObject) {
			return "err:Xn"
		}
		return "err:-n"
	}
	return "ok:" + hx(b)
}

// callEnc builds the value and marshals it; "" when the tree is not a well-typed Go value
func callEnc(esc bool, tree []byte) string {
	w := &wireReader{b: tree}
	v := w.value(0)
	if w.bad || w.pos != len(tree) {
		return ""
	}
	return guarded(func() string { return encObs(ijson.MarshalEscaped(v, esc)) })
}

// ---------- generating trees ----------

func wStr(sb *strings.Builder, s string) {
	sb.WriteString(strconv.Itoa(len(s)))
	sb.WriteByte(':')
	sb.WriteString(s)
}

var badNumPool = []string{"", "-", "01", "1.", "1e", "1e+", "1e-", ".5", "+1", "0x1", "1.5e", " 1", "1 ", "--1", "1..2",
	"1e1.5", "NaN", "Infinity", "-Infinity", "1e5", "-0", "1E-2", "0.0", "0e0", "00", "-01", "1.e1", "1e+-1", "e1", "-.1", "1,0",
	"١", "1_000", "0.", "-0.", "0e", "0E+", "9", "-9.9e+9", "1e05", "1.0e", "1a", "-", "+", "."}

func genRawText(r *rng) string {
	if r.chance(1, 12) {
		return r.pick([]string{"", " ", "null", " null ", "nul", "{}", "[]", "[", "\"<\"", "\"\xe2\x80\xa8\"", "1 2", "{\"a\":1,}"})
	}
	t := genText(r)
	if len(t) > 600 {
		t = []byte(r.pick(handMade))
	}
	return string(t)
}

func genRawPtr(r *rng, sb *strings.Builder) {
	switch k := r.n(12); {
	case k == 0:
		sb.WriteByte('Q')
	case k == 1:
		sb.WriteByte('P')
	default:
		sb.WriteByte('p')
		wStr(sb, genRawText(r))
	}
}

func genRawMsg(r *rng, sb *strings.Builder) {
	if r.chance(1, 10) {
		sb.WriteByte('R')
		return
	}
	sb.WriteByte('r')
	wStr(sb, genRawText(r))
}

func distinctNames(r *rng, n int) []string {
	var ks []string
	seen := map[string]bool{}
	for i := 0; i < n; i++ {
		var k string
		if r.chance(2, 3) {
			k = r.pick(plainNames)
		} else {
			k = r.pick(namePool)
		}
		if r.chance(1, 20) {
			k += string([]byte{byte(r.n(256))})
		}
		if !seen[k] {
			seen[k] = true
			ks = append(ks, k)
		}
	}
	return ks
}

func genAnyTree(r *rng, sb *strings.Builder, depth int, badNums bool) {
	k := r.n(12)
	if depth >= 3 {
		k = r.n(7)
	}
	switch {
	case k == 0:
		sb.WriteByte('z')
	case k == 1:
		sb.WriteByte("tf"[r.n(2)])
	case k < 4:
		sb.WriteByte('n')
		if badNums && r.chance(1, 6) {
			wStr(sb, r.pick(badNumPool))
		} else {
			wStr(sb, r.pick(numPool))
		}
	case k < 7:
		s := r.pick(strPool)
		if r.chance(1, 8) {
			s += string([]byte{byte(r.n(256)), byte(r.n(256))})
		}
		sb.WriteByte('s')
		wStr(sb, s)
	case k < 9:
		if r.chance(1, 15) {
			sb.WriteString("Ai")
			return
		}
		n := r.n(4)
		sb.WriteString("ai" + strconv.Itoa(n) + ":")
		for i := 0; i < n; i++ {
			genAnyTree(r, sb, depth+1, badNums)
		}
	default:
		if r.chance(1, 15) {
			sb.WriteString("Mi")
			return
		}
		ks := distinctNames(r, r.n(5))
		sb.WriteString("mi" + strconv.Itoa(len(ks)) + ":")
		for _, k := range ks {
			wStr(sb, k)
			genAnyTree(r, sb, depth+1, badNums)
		}
	}
}

func genLazyNodes(r *rng, sb *strings.Builder, depth int, wild bool) {
	if wild && r.chance(1, 15) {
		sb.WriteString("Al")
		return
	}
	n := r.n(4)
	sb.WriteString("al" + strconv.Itoa(n) + ":")
	for i := 0; i < n; i++ {
		genLazy(r, sb, depth+1, wild)
	}
}

func genDoc(r *rng, sb *strings.Builder, depth int, wild bool) {
	if wild && r.chance(1, 20) {
		sb.WriteByte('e')
		return
	}
	o := "-01"[r.n(3)]
	ks := distinctNames(r, r.n(5))
	keys := append([]string{}, ks...)
	if wild && r.chance(1, 6) && len(keys) > 0 {
		// the order list and the map drift apart: a name twice, a name without an entry, an entry without a name
		switch r.n(3) {
		case 0:
			keys = append(keys, keys[r.n(len(keys))])
		case 1:
			keys = append(keys, "ghost")
		default:
			keys = keys[1:]
		}
	}
	if wild && r.chance(1, 12) {
		sb.WriteByte('E')
		sb.WriteByte(o)
		sb.WriteString(strconv.Itoa(len(keys)) + ":")
		for _, k := range keys {
			wStr(sb, k)
		}
		return
	}
	sb.WriteByte('D')
	sb.WriteByte(o)
	sb.WriteString(strconv.Itoa(len(keys)) + ":")
	for _, k := range keys {
		wStr(sb, k)
	}
	sb.WriteString(strconv.Itoa(len(ks)) + ":")
	for _, k := range ks {
		wStr(sb, k)
		genLazy(r, sb, depth+1, wild)
	}
}

// wild: also the states the library never builds (nil map below the root, nil ary, bad which,
// raw messages that are not JSON)
func genLazy(r *rng, sb *strings.Builder, depth int, wild bool) {
	k := r.n(20)
	if depth >= 4 && k >= 10 {
		k = r.n(10)
	}
	switch {
	case k == 0:
		sb.WriteByte('l')
	case k < 10:
		sb.WriteByte('w')
		if wild {
			genRawPtr(r, sb)
		} else {
			c := cfgFor(r)
			sb.WriteByte('p')
			wStr(sb, string(spell{r.n(3), r}.text(genValue(r, c, 0))))
		}
	case k < 15:
		sb.WriteByte('d')
		genDoc(r, sb, depth, wild)
	case k < 19:
		sb.WriteByte('y')
		genLazyNodes(r, sb, depth, wild)
	default:
		if !wild {
			sb.WriteByte('l')
		} else if r.chance(1, 2) {
			sb.WriteByte('Y')
		} else {
			sb.WriteByte('b')
		}
	}
}

func genEncTree(r *rng) (string, string) {
	var sb strings.Builder
	fam := ""
	switch k := r.n(20); {
	case k < 2:
		fam = "raw"
		genRawMsg(r, &sb)
	case k < 3:
		fam = "rawptr"
		genRawPtr(r, &sb)
	case k < 5:
		fam = "rawslice"
		if r.chance(1, 10) {
			sb.WriteString("Ar")
		} else {
			n := r.n(4)
			sb.WriteString("ar" + strconv.Itoa(n) + ":")
			for i := 0; i < n; i++ {
				genRawMsg(r, &sb)
			}
		}
	case k < 7:
		fam = "rawptrs"
		if r.chance(1, 2) {
			n := r.n(4)
			sb.WriteString("ap" + strconv.Itoa(n) + ":")
			for i := 0; i < n; i++ {
				genRawPtr(r, &sb)
			}
		} else if r.chance(1, 10) {
			sb.WriteString("Mp")
		} else {
			ks := distinctNames(r, r.n(5))
			sb.WriteString("mp" + strconv.Itoa(len(ks)) + ":")
			for _, k := range ks {
				wStr(&sb, k)
				genRawPtr(r, &sb)
			}
		}
	case k < 8:
		fam = "number"
		sb.WriteByte('n')
		if r.chance(1, 2) {
			wStr(&sb, r.pick(badNumPool))
		} else {
			l := r.pick(numPool)
			if r.chance(1, 3) {
				l = string(corrupt(r, []byte(l)))
			}
			wStr(&sb, l)
		}
	case k < 12:
		fam = "any"
		genAnyTree(r, &sb, 0, r.chance(1, 3))
	case k < 13:
		fam = "strs"
		ks := distinctNames(r, r.n(5))
		if r.chance(1, 2) {
			sb.WriteString("as" + strconv.Itoa(len(ks)) + ":")
			for _, k := range ks {
				sb.WriteByte('s')
				wStr(&sb, k)
			}
		} else {
			sb.WriteString("ms" + strconv.Itoa(len(ks)) + ":")
			for _, k := range ks {
				wStr(&sb, k)
				sb.WriteByte('s')
				wStr(&sb, r.pick(strPool))
			}
		}
	default:
		wild := r.chance(1, 2)
		fam = "lazy"
		if wild {
			fam = "lazywild"
		}
		switch r.n(6) {
		case 0:
			genLazy(r, &sb, 0, wild)
		case 1, 2:
			genDoc(r, &sb, 0, wild)
		case 3:
			if wild && r.chance(1, 8) {
				sb.WriteByte('G')
			} else {
				sb.WriteByte('g')
				genLazyNodes(r, &sb, 0, wild)
			}
		case 4:
			genLazyNodes(r, &sb, 0, wild)
		default:
			// a map of nodes, as `partialDoc.obj` would be marshalled by the plain map encoder
			ks := distinctNames(r, r.n(4))
			sb.WriteString("ml" + strconv.Itoa(len(ks)) + ":")
			for _, k := range ks {
				wStr(&sb, k)
				genLazy(r, &sb, 1, wild)
			}
		}
	}
	return fam, sb.String()
}

func emitEnc(id string, esc bool, tree []byte) {
	res := callEnc(esc, tree)
	if res == "" {
		return
	}
	emit("CODEC %s enc %s %s => %s", id, hx([]byte(b01(esc))), hx(tree), res)
}

func streamEnc(r *rng, id string) {
	_, t := genEncTree(r)
	emitEnc(id, r.chance(1, 2), []byte(t))
}
