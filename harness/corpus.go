package main

// Fixed cases that run first: the probes that exposed the defects repaired by the
// `fix:` commits, the README examples, and minimised past disagreements.

import "fmt"

type capply struct {
	flags string // neg allow ensure esc
	doc   string
	patch string
}

var corpusApply = []capply{
	{"1001", `{"a":[null]}`, `[{"op":"test","path":"/a","value":[null]}]`},
	{"1001", `{}`, `[{"op":"add","path":"/a","value":null},{"op":"test","path":"/a","value":null}]`},
	{"1001", `{"a":1}`, `[{"op":"replace","path":"/a","value":null},{"op":"test","path":"","value":{"a":null}}]`},
	{"1001", `{"a":1}`, `[{"op":"add","path":"/b","value":2},{"op":"copy","from":"","path":"/c"}]`},
	{"1001", `{"a":1}`, `[{"op":"replace","path":"","value":null},{"op":"add","path":"/-","value":1}]`},
	{"1001", `{"a":1}`, `[{"op":"replace","path":"","value":null}]`},
	{"1001", `{"a":1}`, `[{"op":"test","path":""}]`},
	{"1001", ` [1]`, `[]`},
	{"1011", `{}`, `[{"op":"add","path":"/a~1b/c","value":1}]`},
	{"1000", `{"a":{"k":"<"}}`, `[{"op":"test","path":"/a","value":{"k":"<"}}]`},
	{"1101", `{"a":[1]}`, `[{"op":"remove","path":"/a/-1"}]`},
	{"0101", `{"a":[1]}`, `[{"op":"remove","path":"/a/-1"}]`},
	{"0101", `{"a":[1]}`, `[{"op":"remove","path":"/a/-1/x"}]`},
	{"1001", `{"foo":"bar"}`, `[{"op":"add","path":"/baz","value":"qux"}]`},
	{"1001", `{"foo":["bar","baz"]}`, `[{"op":"add","path":"/foo/1","value":"qux"}]`},
	{"1001", `{"baz":"qux","foo":"bar"}`, `[{"op":"remove","path":"/baz"}]`},
	{"1001", `{"foo":{"bar":"baz","waldo":"fred"},"qux":{"corge":"grault"}}`, `[{"op":"move","from":"/foo/waldo","path":"/qux/thud"}]`},
	{"1001", `{"foo":["all","grass","cows","eat"]}`, `[{"op":"move","from":"/foo/1","path":"/foo/3"}]`},
	{"1001", `{"baz":"qux","foo":["a",2,"c"]}`, `[{"op":"test","path":"/baz","value":"qux"},{"op":"test","path":"/foo/1","value":2}]`},
	{"1001", `{"/":9,"~1":10}`, `[{"op":"test","path":"/~01","value":10}]`},
	{"1001", `{"foo":["bar"]}`, `[{"op":"add","path":"/foo/-","value":["abc","def"]}]`},
	{"1001", `{"a":1e400,"b":12345678901234567890123}`, `[{"op":"copy","from":"/a","path":"/c"}]`},
	{"1011", `{"a":[1]}`, `[{"op":"add","path":"/a/3/b","value":1}]`},
	{"1011", `{}`, `[{"op":"add","path":"/x/-","value":1}]`},
	{"1011", `{}`, `[{"op":"add","path":"/x/0/y","value":1}]`},
	{"1001", `{"a":{"b":1}}`, `[{"op":"move","from":"/a","path":"/a/b/c"}]`},
	{"1001", `{"a":1}`, `[{"op":"move","from":"/a","path":"/a"}]`},
	{"1001", `{"a":[1,2,3]}`, `[{"op":"remove","path":"/a/-1"},{"op":"add","path":"/a/-1","value":9}]`},
	{"1001", `null`, `[{"op":"test","path":"","value":{}}]`},
	{"1001", `null`, `[{"op":"test","path":"","value":{"a":1}}]`},
	{"1001", ` null `, `[{"op":"test","path":"","value":null}]`},
	{"1001", `null`, `[{"op":"test","path":"/a","value":null}]`},
}

func streamCorpus() {
	for i, c := range corpusApply {
		o := aopts{neg: c.flags[0] == '1', allow: c.flags[1] == '1', ensure: c.flags[2] == '1', esc: c.flags[3] == '1'}
		ac := acase{o: o, doc: []byte(c.doc), patch: []byte(c.patch)}
		emitApply(fmt.Sprintf("corpus-a%d", i), ac)
	}
	eq := [][2]string{{"[null]", "[null]"}, {"null", "null"}, {"[]", "null"}, {`{"a":[null]}`, `{"a":[null]}`}, {"{", "{"},
		{"", ""}, {"abc", "abc"}, {"1x", "1x"}, {`{"a":1,"b":2}`, `{"b":2,"a":1}`}, {`"A"`, `"A"`}, {"1.0", "1"},
		{`{"a":null}`, `{}`}, {`[1,2]`, `[2,1]`}, {` {"a" : [1 , {"b":null}]} `, `{"a":[1,{"b":null}]}`}}
	for i, p := range eq {
		a, b := []byte(p[0]), []byte(p[1])
		emit("EQUAL corpus-e%d %s %s => %s", i, hx(a), hx(b), callEqual(a, b))
	}
	mg := [][2]string{{`{"a":1}`, `{"b":[{"c":null,"d":1}]}`}, {`{"a":1}`, `[{"c":null}]`}, {`{"a":"b"}`, `{"a":"c"}`},
		{`{"a":"b"}`, `{"a":null}`}, {`{"a":["b"]}`, `{"a":"c"}`}, {`{"a":{"b":"c"}}`, `{"a":{"b":"d","c":null}}`},
		{`{"a":[{"b":"c"}]}`, `{"a":[1]}`}, {`["a","b"]`, `["c","d"]`}, {`{"a":"b"}`, `["c"]`}, {`{"a":"foo"}`, `null`},
		{`{"a":"foo"}`, `"bar"`}, {`{"e":null}`, `{"a":1}`}, {`[1,2]`, `{"a":"b","c":null}`}, {`{}`, `{"a":{"bb":{"ccc":null}}}`},
		{`null`, `{"a":1}`}, {`1`, `{"a":{"b":null}}`}, {`{"a":1}`, ` 7 `}}
	for i, p := range mg {
		a, b := []byte(p[0]), []byte(p[1])
		emit("MERGE corpus-m%d %s %s => %s", i, hx(a), hx(b), callMerge(a, b))
	}
	cr := [][2]string{{`[]`, `[{"a":1}]`}, {"{", "{"}, {`{"a":1}`, `{"a":1}`}, {`{"a":1,"b":{"c":2}}`, `{"a":2,"b":{}}`},
		{`[{"a":1}]`, `[{"a":2}]`}, {`{"a":1}`, `[1]`}, {`null`, `{"a":1}`}, {`{"a":1.0}`, `{"a":1}`}}
	for i, p := range cr {
		a, b := []byte(p[0]), []byte(p[1])
		pobs := callCreate(a, b)
		mobs := "err:-n"
		if pb, ok := okBytes(pobs); ok {
			mobs = callMerge(a, pb)
		}
		emit("CREATE corpus-c%d %s %s => %s %s", i, hx(a), hx(b), pobs, mobs)
	}
	for i, t := range handMade {
		emitValid(fmt.Sprintf("corpus-v%d", i), []byte(t))
		emitEntry(fmt.Sprintf("corpus-n%d", i), []byte(t))
		replayCodec(fmt.Sprintf("corpus-r%d", i), "roundtrip", []byte("1"), []byte(t))
		replayCodec(fmt.Sprintf("corpus-q%d", i), "compact", nil, []byte(t))
		emit("EQUAL corpus-h%d %s %s => %s", i, hx([]byte(t)), hx([]byte(t)), callEqual([]byte(t), []byte(t)))
	}
	for i, t := range []string{"null", "[]", "[null]", `[{"op":"add","path":"/a","value":null}]`, `[{"op":"add","path":"/a"}]`,
		`[{"op":"test","path":"/a"}]`, `[{"op":"move","path":"/a"}]`, `[{"op":"remove","path":null}]`, `{"op":"remove","path":"/a"}`,
		`[{"op":"remove","path":"/a","op":"bogus"}]`, `[{"OP":"remove","path":"/a"}]`, `[1]`, `[{"op":"copy","from":1,"path":"/a"}]`} {
		emitDecode(fmt.Sprintf("corpus-d%d", i), []byte(t))
	}
}
