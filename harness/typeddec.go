package main

// Stream `typeddec` (C17): the reflective DECODER on TYPED targets — the run-time generated struct types and the
// bank of declared types of typed.go — against the literal model JP/Codec/TypedDecode.lean:
//
//	CODEC <id> typeddec <class a|b|c> <type> <text> => ok:<value> <err> std:<same|value|error|skip> rt:<same|diff|na>
//	CODEC <id> typeddec <class> <type> <text> => panic - std:<…> rt:na
//
// <type> / <value>: hex of the wire format of JP/Codec/TypedWire.lean (renderType / renderValue of typed.go).
// <value> is what a FRESH variable of the type holds after the fork's Unmarshal(text, &x); <err> the class of the
// error returned (none | syntax | type:<json kind>@<offset> | other).  std: encoding/json on the same (type, text)
// — a third opinion (value and error class); `skip` when the type mentions the fork's own Number type.  rt: for
// class a (the text is the fork's Marshal of a generated value of the type) and no error: does Marshal of the
// decoded value give the text again.
//
// Texts: (a) the fork's own encoding; (b) mutations of it and type-directed texts: member names re-cased (upper,
// lower, ſ for s, K (Kelvin) for k), duplicated, unknown (with nested containers), re-ordered, null anywhere, wrongly
// typed values, numbers out of range of the kind, quoted values and near-misses for `,string`, base64 with and
// without padding / newlines / bad characters, arrays longer and shorter than a fixed array; (c) unrelated texts.

import (
	"bytes"
	stdjson "encoding/json"
	"fmt"
	"os"
	"reflect"
	"strings"
	"unicode"
	"unicode/utf8"

	ijson "github.com/evanphx/json-patch/v5/internal/json"
)

var tyStdNumberType = reflect.TypeOf(stdjson.Number(""))

// a TAGGED embedded pointer to an unexported struct type is a member of its own whose pointer cannot be set:
// `indirect` panics in reflect.Value.Set as soon as the member is present (encoding/json does the same)
type tyOuter9 struct {
	*tyInner `json:"in"`
	Z        int
}

// tagged embedded struct by value (its exported fields can be set) and a tagged embedded exported pointer
type tyOuter10 struct {
	tyInner `json:"in,omitempty"`
	*TyPub  `json:"pub"`
}

var tdBank = append(append([]reflect.Type{}, tyBank...), reflect.TypeOf(tyOuter9{}), reflect.TypeOf(tyOuter10{}))

func init() {
	for _, t := range tdBank {
		tyNamed[t.PkgPath()+"."+t.Name()] = t
	}
}

// names that exercise each of the four matchers of fold.go's foldFunc, in both orders of the deciding bytes
var tdFieldNames = append(append([]string{}, tyFieldNames...), "Straße", "Señor", "Kälte", "Été_s", "Ks", "S", "K", "Sk", "A_b1",
	"Task", "Ask", "Kiss", "B2", "Sé", "Ék")
var tdTagNames = append(append([]string{}, tyTagNames...), "straße", "señor", "kälte", "été_s", "Ks", "aſk", "a_b1", "12", "_-_",
	"sk", "k", "s", "ask", "sé", "és", "ké", "ék", "a1", "_", "", "", "", "")

var tdNumPool = []string{"0", "-0", "1", "-1", "7", "127", "128", "-128", "-129", "255", "256", "32767", "32768", "-32769", "65535", "65536",
	"2147483647", "2147483648", "-2147483649", "4294967295", "4294967296", "9223372036854775807", "9223372036854775808",
	"-9223372036854775808", "-9223372036854775809", "18446744073709551615", "18446744073709551616", "1e3", "1E2", "1.5", "1.0", "0.0",
	"-0.0", "1e-1", "100000000000000000000000", "12", "3"}

// contents of a string offered to a `,string` field (and to everything else)
var tdQuotedPool = []string{"1", "-5", "12", "0", "true", "false", "null", "\"x\"", "\"\"", "", "1 ", " 1", "+1", "01", "1e2", "1.5", "-", "x",
	"nul", "nulll", "tru", "truex", "\"a", "a\"", "\"\\u0041\"", "\"\\\"", "[1]", "{}", "128", "256", "-129", "18446744073709551616", "0x1",
	"\"12\"", "\"null\"", "-0", "\"é\"", "n", "t", "f", "\""}

var tdB64Pool = []string{"", "QUJD", "QUI=", "QUI", "QQ==", "QQ=", "QQ", "Q", "Q\nUJD", "QUJD\n", "\nQUJD", "QU JD", "QUJD=", "====", "=", "QQ==QQ==",
	"QQ\r\n==", "QQ=\n=", "QQ==\n", "QQ== ", "QR==", "QUJ=", "QUK=", "+/+/", "-_-_", "QUJDRA==", "QUJDREU=", "QUJDREVG", "QUJDREVGRw==",
	"QUJDREVGR0hJSktMTU5PUA==", "QUJDREVGR0hJSktMTU5PUFE=", "QUJDREVGR0hJSktM\r\nTU5PUFFS", "QUJDREVGR0hJSktMTU5PUFFS*", "QUJD*EVG", "é", "QQ=x", "QUI=x"}

var tdIntKeyPool = []string{"0", "1", "-1", "+1", "01", "-0", "127", "128", "-128", "-129", "255", "256", "65536", "1.5", "1e2", "", "a", " 1", "1 ",
	"9223372036854775807", "9223372036854775808", "-9223372036854775808", "18446744073709551615", "18446744073709551616", "٣", "1_0"}

func tdSwapCase(r *rng, k string) string {
	rs := []rune(k)
	if len(rs) == 0 {
		return k
	}
	i := r.n(len(rs))
	if unicode.IsUpper(rs[i]) {
		rs[i] = unicode.ToLower(rs[i])
	} else {
		rs[i] = unicode.ToUpper(rs[i])
	}
	return string(rs)
}

// a spelling of the member name `k` that may or may not match it case-insensitively
func tdRecase(r *rng, k string) string {
	switch r.n(13) {
	case 0:
		return strings.ToUpper(k)
	case 1:
		return strings.ToLower(k)
	case 2, 3:
		return tdSwapCase(r, k)
	case 4:
		// the special letters of equalFoldRight
		return strings.NewReplacer("s", "ſ", "S", "ſ", "k", "\u212a", "K", "\u212a").Replace(k)
	case 5:
		rs := []rune(k)
		for i, c := range rs {
			if r.chance(1, 2) {
				switch c {
				case 's', 'S':
					rs[i] = 'ſ'
				case 'k', 'K':
					rs[i] = '\u212a'
				case 'ſ':
					rs[i] = []rune{'s', 'S'}[r.n(2)]
				case '\u212a':
					rs[i] = []rune{'k', 'K'}[r.n(2)]
				}
			}
		}
		return string(rs)
	case 6:
		// not a match: ß upper-cases to SS in full case mapping only
		return strings.ReplaceAll(strings.ToUpper(k), "ß", "SS")
	case 7:
		return k + r.pick([]string{"x", " ", "s", "\u212a", "é"})
	case 8:
		if len(k) > 0 {
			_, w := utf8.DecodeRuneInString(k)
			return k[w:]
		}
		return "x"
	case 9:
		// a non-ASCII byte where the name has an ASCII one and vice versa
		return strings.NewReplacer("e", "é", "é", "e", "a", "ä", "ä", "a", "n", "ñ", "ñ", "n", "E", "É", "É", "E").Replace(k)
	case 10:
		return strings.Title(strings.ToLower(k))
	}
	if len(k) > 0 && r.chance(1, 2) {
		// the case bit of one byte flipped, letter or not (`_` / DEL, `@` / backquote, `1` / U+0011, `[` / `{`)
		b := []byte(k)
		i := r.n(len(b))
		if b[i] < 0x80 {
			b[i] ^= 0x20
			return string(b)
		}
	}
	return tdSwapCase(r, tdSwapCase(r, k))
}

type tdMember struct {
	name   string
	typ    reflect.Type
	quoted bool
}

// the member names a struct type might answer to (approximately: tags, field names, promoted ones)
func tdMembers(t reflect.Type, depth int, out *[]tdMember) {
	if depth > 4 {
		return
	}
	for i := 0; i < t.NumField(); i++ {
		sf := t.Field(i)
		tag := sf.Tag.Get("json")
		name, opts, _ := strings.Cut(tag, ",")
		ft := sf.Type
		if sf.Anonymous && name == "" {
			et := ft
			if et.Kind() == reflect.Ptr {
				et = et.Elem()
			}
			if et.Kind() == reflect.Struct {
				tdMembers(et, depth+1, out)
				continue
			}
		}
		if name == "" {
			name = sf.Name
		}
		*out = append(*out, tdMember{name, ft, strings.Contains(opts, "string")})
	}
}

func tdWrong(r *rng) *jv {
	switch r.n(8) {
	case 0:
		return jnull()
	case 1:
		return &jv{kind: kBool, b: r.chance(1, 2)}
	case 2:
		return jnum(r.pick(tdNumPool))
	case 3:
		return jstr(r.pick(tdQuotedPool))
	case 4:
		return &jv{kind: kArr, arr: []*jv{jnum("1"), jstr("x"), jnull()}}
	case 5:
		return &jv{kind: kObj, keys: []string{"a", "A"}, vals: []*jv{jnum("1"), &jv{kind: kArr}}}
	case 6:
		return jstr(r.pick(tdB64Pool))
	}
	return genValue(r, genCfg{depth: 2, nullW: 2, maxMember: 3}, 0)
}

// a text shaped after the type, with deviations
func (g *tyGen) tdText(t reflect.Type, depth int) *jv {
	r := g.r
	if r.chance(1, 14) {
		return jnull()
	}
	if r.chance(1, 14) {
		return tdWrong(r)
	}
	switch t.Kind() {
	case reflect.Bool:
		return &jv{kind: kBool, b: r.chance(1, 2)}
	case reflect.Int, reflect.Int8, reflect.Int16, reflect.Int32, reflect.Int64, reflect.Uint, reflect.Uint8, reflect.Uint16, reflect.Uint32, reflect.Uint64:
		return jnum(r.pick(tdNumPool))
	case reflect.String:
		if t == tyNumberType {
			if r.chance(1, 2) {
				return jnum(r.pick(tdNumPool))
			}
			return jstr(r.pick(tyNumPool))
		}
		if r.chance(1, 4) {
			return jstr(r.pick(tdQuotedPool))
		}
		return jstr(g.str())
	case reflect.Slice:
		if t.Elem().Kind() == reflect.Uint8 && r.chance(3, 4) {
			return jstr(r.pick(tdB64Pool))
		}
		fallthrough
	case reflect.Array:
		n := r.n(5)
		if t.Kind() == reflect.Array {
			n = t.Len() + r.n(4) - 1
		}
		if depth <= 0 && n > 2 {
			n = 2
		}
		v := &jv{kind: kArr}
		for i := 0; i < n; i++ {
			v.arr = append(v.arr, g.tdText(t.Elem(), depth-1))
		}
		return v
	case reflect.Map:
		v := &jv{kind: kObj}
		n := r.n(4)
		for i := 0; i < n; i++ {
			k := r.pick(tyKeyPool)
			if t.Key().Kind() != reflect.String || r.chance(1, 6) {
				k = r.pick(tdIntKeyPool)
			}
			v.keys = append(v.keys, k)
			v.vals = append(v.vals, g.tdText(t.Elem(), depth-1))
		}
		return v
	case reflect.Ptr:
		return g.tdText(t.Elem(), depth)
	case reflect.Interface:
		return genValue(r, genCfg{depth: 2, nullW: 2, maxMember: 3}, 0)
	case reflect.Struct:
		var ms []tdMember
		tdMembers(t, 0, &ms)
		v := &jv{kind: kObj}
		add := func(k string, x *jv) {
			v.keys = append(v.keys, k)
			v.vals = append(v.vals, x)
		}
		val := func(m tdMember) *jv {
			x := g.tdText(m.typ, depth-1)
			if m.quoted && r.chance(4, 5) {
				if r.chance(1, 3) {
					return jstr(r.pick(tdQuotedPool))
				}
				if !x.isCon() {
					// the value inside a string, as `,string` wants it
					return jstr(spell{mode: 1}.print(x))
				}
			}
			return x
		}
		for _, m := range ms {
			if !r.chance(3, 4) {
				continue
			}
			k := m.name
			if r.chance(1, 3) {
				k = tdRecase(r, k)
			}
			first := val(m)
			add(k, first)
			if r.chance(1, 5) {
				// a duplicate, under the same or another spelling: decoded INTO what the first one left
				k2 := m.name
				if r.chance(1, 3) {
					k2 = tdRecase(r, k2)
				}
				second := val(m)
				switch r.n(4) {
				case 0:
					second = jnull()
				case 1:
					// a shorter array (the rest is cut off / zeroed), nulls (elements kept), a longer one afterwards
					if first.kind == kArr && len(first.arr) > 0 {
						second = &jv{kind: kArr}
						for j := 0; j < r.n(len(first.arr)); j++ {
							if r.chance(1, 2) {
								second.arr = append(second.arr, jnull())
							} else {
								second.arr = append(second.arr, first.arr[j].clone())
							}
						}
					}
				}
				add(k2, second)
				if first.kind == kArr && r.chance(1, 2) {
					third := &jv{kind: kArr}
					for j := 0; j < len(first.arr)+r.n(3); j++ {
						third.arr = append(third.arr, jnull())
					}
					add(m.name, third)
				}
			}
			if r.chance(1, 8) {
				add(r.pick([]string{"unknown", "", "zz", "Ä", "ſ", "\u212a", "a", "A", "s", "k"}), tdWrong(r))
			}
		}
		if len(v.keys) > 1 && r.chance(1, 3) {
			i, j := r.n(len(v.keys)), r.n(len(v.keys))
			v.keys[i], v.keys[j] = v.keys[j], v.keys[i]
			v.vals[i], v.vals[j] = v.vals[j], v.vals[i]
		}
		return v
	}
	return jnull()
}

func tdNodes(v *jv, out *[]*jv) {
	*out = append(*out, v)
	for _, x := range v.arr {
		tdNodes(x, out)
	}
	for _, x := range v.vals {
		tdNodes(x, out)
	}
}

// one mutation somewhere in the tree (in place)
func tdMutate(r *rng, root *jv) {
	var ns []*jv
	tdNodes(root, &ns)
	// containers are preferred: most mutations concern members and elements
	v := ns[r.n(len(ns))]
	for try := 0; try < 3 && !v.isCon(); try++ {
		v = ns[r.n(len(ns))]
	}
	switch {
	case v.kind == kObj && len(v.keys) > 0:
		i := r.n(len(v.keys))
		switch r.n(9) {
		case 0, 1:
			v.keys[i] = tdRecase(r, v.keys[i])
		case 2:
			// a duplicate at the end: same value, another value, or a partial object
			k := v.keys[i]
			if r.chance(1, 3) {
				k = tdRecase(r, k)
			}
			x := v.vals[i].clone()
			if r.chance(1, 2) {
				tdMutate(r, x)
			}
			v.keys = append(v.keys, k)
			v.vals = append(v.vals, x)
		case 3:
			j := r.n(len(v.keys) + 1)
			v.keys = append(v.keys[:j:j], append([]string{r.pick([]string{"unknown", "", "zz", "Ä", "ſ", "\u212a", "x"})}, v.keys[j:]...)...)
			v.vals = append(v.vals[:j:j], append([]*jv{tdWrong(r)}, v.vals[j:]...)...)
		case 4:
			j := r.n(len(v.keys))
			v.keys[i], v.keys[j] = v.keys[j], v.keys[i]
			v.vals[i], v.vals[j] = v.vals[j], v.vals[i]
		case 5:
			v.vals[i] = jnull()
		case 6:
			v.vals[i] = tdWrong(r)
		case 7:
			if v.vals[i].kind == kNum {
				v.vals[i] = jnum(r.pick(tdNumPool))
			} else if v.vals[i].kind == kStr {
				v.vals[i] = jstr(r.pick(append(tdQuotedPool, tdB64Pool...)))
			} else {
				v.vals[i] = jstr(spell{mode: 1}.print(v.vals[i]))
			}
		default:
			v.keys = append(v.keys[:i:i], v.keys[i+1:]...)
			v.vals = append(v.vals[:i:i], v.vals[i+1:]...)
		}
	case v.kind == kArr:
		switch r.n(5) {
		case 0, 1:
			x := tdWrong(r)
			if len(v.arr) > 0 && r.chance(2, 3) {
				x = v.arr[r.n(len(v.arr))].clone()
			}
			v.arr = append(v.arr, x)
		case 2:
			if len(v.arr) > 0 {
				v.arr = v.arr[:len(v.arr)-1]
			}
		case 3:
			if len(v.arr) > 0 {
				v.arr[r.n(len(v.arr))] = jnull()
			}
		default:
			if len(v.arr) > 0 {
				v.arr[r.n(len(v.arr))] = tdWrong(r)
			} else {
				*v = *tdWrong(r)
			}
		}
	case v.kind == kNum:
		*v = *jnum(r.pick(tdNumPool))
	case v.kind == kStr:
		if r.chance(1, 2) {
			*v = *jstr(r.pick(append(tdQuotedPool, tdB64Pool...)))
		} else {
			*v = *tdWrong(r)
		}
	default:
		*v = *tdWrong(r)
	}
}

func tdFirstWord(s string) string {
	if i := strings.IndexByte(s, ' '); i >= 0 {
		return s[:i]
	}
	return s
}

func tdErrClass(err error) string {
	switch e := err.(type) {
	case nil:
		return "none"
	case *ijson.SyntaxError:
		return "syntax"
	case *ijson.UnmarshalTypeError:
		return fmt.Sprintf("type:%s@%d", tdFirstWord(e.Value), e.Offset)
	case *stdjson.SyntaxError:
		return "syntax"
	case *stdjson.UnmarshalTypeError:
		return fmt.Sprintf("type:%s@%d", tdFirstWord(e.Value), e.Offset)
	}
	return "other"
}

func tdRender(v reflect.Value) string {
	var b bytes.Buffer
	renderValue(&b, v)
	return hx(b.Bytes())
}

func tdIface(v reflect.Value) interface{} {
	if v.Kind() == reflect.Interface && v.IsNil() {
		return nil
	}
	return v.Interface()
}

func emitTypedDec(id, cls string, typ reflect.Type, text []byte, std bool) {
	var tb bytes.Buffer
	renderType(&tb, typ)
	var fval, ferr, rt string
	res := guarded(func() string {
		x := reflect.New(typ)
		err := ijson.Unmarshal(text, x.Interface())
		fval, ferr = tdRender(x.Elem()), tdErrClass(err)
		rt = "rt:na"
		if cls == "a" && err == nil {
			out, merr := ijson.Marshal(tdIface(x.Elem()))
			if merr == nil && bytes.Equal(out, text) {
				rt = "rt:same"
			} else {
				rt = "rt:diff"
			}
		}
		return "ok:" + fval + " " + ferr
	})
	if res == "panic" || res == "hang" {
		res += " -"
		rt = "rt:na"
	}
	sres := "std:skip"
	if std {
		sres = guarded(func() string {
			y := reflect.New(typ)
			var err error
			if !stdjson.Valid(text) {
				err = &stdjson.SyntaxError{}
			} else {
				d := stdjson.NewDecoder(bytes.NewReader(text))
				d.UseNumber()
				err = d.Decode(y.Interface())
			}
			sval, serr := tdRender(y.Elem()), tdErrClass(err)
			if strings.HasPrefix(res, "panic") {
				return "std:nopanic"
			}
			if serr != ferr {
				if os.Getenv("JP_TRACE") != "" {
					fmt.Fprintf(os.Stderr, "TRACE typeddec %s error fork %s std %s\n  type %s\n  text %s\n", id, ferr, serr, typ.String(), text)
				}
				return "std:error"
			}
			if sval != fval {
				if os.Getenv("JP_TRACE") != "" {
					fmt.Fprintf(os.Stderr, "TRACE typeddec %s value\n  type %s\n  text %s\n", id, typ.String(), text)
				}
				return "std:value"
			}
			return "std:same"
		})
		if sres == "panic" {
			if strings.HasPrefix(res, "panic") {
				sres = "std:same"
			} else {
				sres = "std:error"
			}
		} else if sres == "std:nopanic" {
			sres = "std:error"
		}
	}
	emit("CODEC %s typeddec %s %s %s => %s %s %s", id, cls, hx(tb.Bytes()), hx(text), res, sres, rt)
}

var tdUnrelated = []string{"null", "true", "0", "\"\"", "[]", "{}", "[[]]", "{\"a\":1}", "[1,2,3]", "{\"A\":{\"A\":{\"A\":1}}}", " 1 ", "\"QUJD\"",
	"{\"a\":null,\"b\":[{}],\"c\":\"x\"}", "[null,null,null,null,null]", "{\"\":0}", "1e400", "-0", "{\"a\":1,\"a\":2}", "[{\"a\":1},{\"A\":2}]",
	"nul", "{", "[1,]", "{\"a\"}", "", "1 2", "\"\\ud800\"", "\"\xff\""}

func (g *tyGen) tdType() reflect.Type {
	r := g.r
	switch k := r.n(12); {
	case k < 6:
		return g.structType(3)
	case k == 6:
		return tdBank[r.n(len(tdBank))]
	case k == 7:
		return reflect.PtrTo(g.structType(2))
	case k == 8:
		return tyAnyType
	}
	return g.anyType(3)
}

func streamTypedDec(r *rng, n int, pfx string) {
	for i := 0; i < n; i++ {
		id := fmt.Sprintf("%s%d", pfx, i)
		g := &tyGen{r: r, names: tdFieldNames, tags: tdTagNames}
		typ := g.tdType()
		cls := "b"
		var text []byte
		own := func() []byte {
			val := reflect.New(typ).Elem()
			g.fill(val, 3)
			var b []byte
			guarded(func() string {
				if o, err := ijson.Marshal(tdIface(val)); err == nil {
					b = o
				}
				return ""
			})
			return b
		}
		switch k := r.n(10); {
		case k < 2:
			if text = own(); text != nil {
				cls = "a"
			}
		case k < 5:
			if t0 := own(); t0 != nil {
				if v, err := parseJV(t0); err == nil {
					for m := 1 + r.n(3); m > 0; m-- {
						tdMutate(r, v)
					}
					text = spell{mode: r.n(3), r: r}.text(v)
				}
			}
		case k < 9:
			text = spell{mode: r.n(3), r: r}.text(g.tdText(typ, 3))
		default:
			cls = "c"
			if r.chance(1, 2) {
				text = []byte(r.pick(tdUnrelated))
			} else {
				g2 := &tyGen{r: r, names: tdFieldNames, tags: tdTagNames}
				t2 := g2.tdType()
				text = spell{mode: r.n(3), r: r}.text(g2.tdText(t2, 2))
			}
		}
		if text == nil {
			cls = "c"
			text = []byte(r.pick(tdUnrelated))
		}
		emitTypedDec(id, cls, typ, text, !tyHasNumber(typ, 0))
	}
}

func replayTypedDec(id, cls string, tb, text []byte) {
	defer func() {
		if r := recover(); r != nil {
			fmt.Fprintln(os.Stderr, "typeddec replay:", r)
		}
	}()
	typ := (&tyParser{b: tb}).typ()
	emitTypedDec(id, cls, typ, text, false)
}
