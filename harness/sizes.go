package main

// Copy sizes measured on the OUTPUT (C12: "each measured as it is spelled in the output, compact and with HTML
// escaping if enabled"), independently of the library's own accounting and of what a text with repeated member
// names denotes: for every copy operation the patch is cut after it, applied without a limit, and the bytes that
// stand at the copy's destination in that output are counted.

import (
	"bytes"
	stdjson "encoding/json"
	"strconv"
	"strings"
)

// the bytes of the value that `toks` address in the compact JSON text `data`; index tokens follow the dialect of
// `add` (with negative indices: -1 is the last element AFTER the insertion); the first member with a matching name
// is taken (a decoded object prints every occurrence of a name with the same value)
func jsonSpan(data []byte, toks []string) ([]byte, bool) {
	pos := 0
	skipWS := func() {
		for pos < len(data) && (data[pos] == ' ' || data[pos] == '\n' || data[pos] == '\t' || data[pos] == '\r') {
			pos++
		}
	}
	var skipValue func() bool
	skipString := func() bool {
		if pos >= len(data) || data[pos] != '"' {
			return false
		}
		pos++
		for pos < len(data) {
			switch data[pos] {
			case '\\':
				pos += 2
			case '"':
				pos++
				return true
			default:
				pos++
			}
		}
		return false
	}
	skipValue = func() bool {
		skipWS()
		if pos >= len(data) {
			return false
		}
		switch data[pos] {
		case '"':
			return skipString()
		case '{', '[':
			open, cl := data[pos], byte('}')
			if open == '[' {
				cl = ']'
			}
			pos++
			skipWS()
			if pos < len(data) && data[pos] == cl {
				pos++
				return true
			}
			for {
				if open == '{' {
					skipWS()
					if !skipString() {
						return false
					}
					skipWS()
					if pos >= len(data) || data[pos] != ':' {
						return false
					}
					pos++
				}
				if !skipValue() {
					return false
				}
				skipWS()
				if pos >= len(data) {
					return false
				}
				if data[pos] == ',' {
					pos++
					continue
				}
				if data[pos] == cl {
					pos++
					return true
				}
				return false
			}
		default:
			start := pos
			for pos < len(data) && !strings.ContainsRune(",]} \n\t\r", rune(data[pos])) {
				pos++
			}
			return pos > start
		}
	}
	for _, tok := range toks {
		skipWS()
		if pos >= len(data) {
			return nil, false
		}
		switch data[pos] {
		case '{':
			pos++
			found := false
			for !found {
				skipWS()
				if pos < len(data) && data[pos] == '}' {
					return nil, false
				}
				ks := pos
				if !skipString() {
					return nil, false
				}
				var name string
				if stdjson.Unmarshal(data[ks:pos], &name) != nil {
					return nil, false
				}
				skipWS()
				if pos >= len(data) || data[pos] != ':' {
					return nil, false
				}
				pos++
				skipWS()
				if name == tok {
					found = true
					break
				}
				if !skipValue() {
					return nil, false
				}
				skipWS()
				if pos < len(data) && data[pos] == ',' {
					pos++
					continue
				}
				return nil, false
			}
		case '[':
			// element spans of this array
			save := pos
			pos++
			var starts []int
			skipWS()
			if pos < len(data) && data[pos] != ']' {
				for {
					skipWS()
					starts = append(starts, pos)
					if !skipValue() {
						return nil, false
					}
					skipWS()
					if pos < len(data) && data[pos] == ',' {
						pos++
						continue
					}
					break
				}
			}
			_ = save
			idx := -1
			if tok == "-" {
				idx = len(starts) - 1
			} else if n, err := strconv.Atoi(tok); err == nil && strconv.Itoa(n) == tok {
				if n < 0 {
					idx = len(starts) + n
				} else {
					idx = n
				}
			}
			if idx < 0 || idx >= len(starts) {
				return nil, false
			}
			pos = starts[idx]
		default:
			return nil, false
		}
	}
	skipWS()
	start := pos
	if !skipValue() {
		return nil, false
	}
	return data[start:pos], true
}

func ptrTokens(p string) ([]string, bool) {
	if p == "" {
		return nil, true
	}
	if p[0] != '/' {
		return nil, false
	}
	parts := strings.Split(p[1:], "/")
	for i, t := range parts {
		parts[i] = strings.ReplaceAll(strings.ReplaceAll(t, "~1", "/"), "~0", "~")
	}
	return parts, true
}

// " sizes=12,n,7,?": one entry per copy operation that RUNS (the list ends where the patch fails without a limit), in
// order: its size, `n` = the copied value is null (which the property lets count as 0 or 4), `?` = not measurable here
func copySizesTag(c acase) string {
	var out []string
	elems := splitArray(c.patch)
	if len(elems) != len(c.ops) {
		return ""
	}
	for k, op := range c.ops {
		if op.op != "copy" {
			continue
		}
		toks, ok := ptrTokens(op.path)
		if !ok || len(toks) == 0 {
			out = append(out, "?")
			break
		}
		o := c.o
		o.limit = 0
		res := callApply(o, "", c.doc, []byte("["+strings.Join(elems[:k+1], ",")+"]"))
		b, isOk := okBytes(res)
		if !isOk {
			// the truncated patch fails without a limit: if it is this copy that fails (its destination, say), the
			// library has still duplicated and counted the value before it tried to insert it - not measurable here
			out = append(out, "?")
			break
		}
		span, found := jsonSpan(b, toks)
		if !found {
			// this copy ran but cannot be measured here: nothing can be said about it or about later ones
			out = append(out, "?")
			break
		}
		if bytes.Equal(span, []byte("null")) {
			out = append(out, "n")
		} else {
			out = append(out, strconv.Itoa(len(span)))
		}
	}
	if len(out) == 0 {
		return ""
	}
	return " sizes=" + strings.Join(out, ",")
}
