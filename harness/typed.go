package main

// Stream `typed` (C17): the reflective encoder on TYPED Go values — run-time generated struct types
// (reflect.StructOf: tags, options, embedding by value and by pointer down to depth 3, clashing names at
// equal and different depths, tagged against untagged, `-` and `-,`, invalid tag characters, unexported
// fields) plus a bank of declared types for what StructOf refuses (unexported embedded structs) — against
// the literal model JP/Codec/Typed.lean:
//
//	CODEC <id> typed <esc 0|1> <type> <value> => ok:<hex> | err:-n | panic
//
// <type> and <value> are hex-encoded renderings (format: JP/Codec/TypedWire.lean).  The observation is the
// fork's MarshalEscaped(v, esc).  The same value also goes through encoding/json (a third opinion, not part
// of the proof): a difference is reported on a STD line.  No float field is ever generated: floats are
// outside the model.

import (
	"bytes"
	stdjson "encoding/json"
	"fmt"
	"go/token"
	"os"
	"reflect"
	"sort"
	"strconv"
	"strings"
	"unsafe"

	ijson "github.com/evanphx/json-patch/v5/internal/json"
)

// ---------- declared types: what reflect.StructOf cannot build ----------

type tyInner struct {
	A int
	B string `json:"b"`
	c int
	D *bool `json:",omitempty"`
}
type TyPub struct {
	A int8 `json:"A"`
	E []byte
	b string
}
type tyDeep struct {
	tyInner
	A uint16 `json:"a,string"`
	F map[int8]string
}
type tyMyInt int
type TyMyStr string
type TyNum = ijson.Number

// an unexported embedded struct by value; `c` clashes with nothing (unexported)
type tyOuter1 struct {
	tyInner
	C uint8
}

// an unexported embedded POINTER to a struct; A clashes at different depths (the shallow one wins)
type tyOuter2 struct {
	*tyInner
	A string
}

// A at equal depth, once untagged (tyInner.A) once tagged (TyPub.A): the tagged one wins
type tyOuter3 struct {
	tyInner
	TyPub
}

// A at equal depth twice untagged: both vanish; b only through tyInner
type tyOuter4 struct {
	tyInner
	X struct{ A int } `json:"-"`
	tyOuter1
}

// unexported embedded non-struct: ignored; exported embedded non-struct: a field under its type name
type tyOuter5 struct {
	tyMyInt
	TyMyStr
	N TyNum `json:"n,string"`
}

// a tagged unexported embedded struct is an ordinary member; depth 3 through a pointer
type tyOuter6 struct {
	tyInner `json:"in"`
	*tyDeep
	TyPub *TyPub `json:",omitempty"`
}

// the same struct reached twice at the same level (count > 1: every field of it annihilates itself)
type tyTwiceA struct{ tyInner }
type tyTwiceB struct {
	tyInner
	Z int
}
type tyOuter7 struct {
	tyTwiceA
	tyTwiceB
	B bool
}

// a shallow field hides the twice-reached ones
type tyOuter8 struct {
	tyTwiceA
	*tyTwiceB
	A *int `json:"A,omitempty"`
}

var tyBank = []reflect.Type{
	reflect.TypeOf(tyOuter1{}), reflect.TypeOf(tyOuter2{}), reflect.TypeOf(tyOuter3{}), reflect.TypeOf(tyOuter4{}),
	reflect.TypeOf(tyOuter5{}), reflect.TypeOf(tyOuter6{}), reflect.TypeOf(tyOuter7{}), reflect.TypeOf(tyOuter8{}),
	reflect.TypeOf(tyDeep{}), reflect.TypeOf(TyPub{}), reflect.TypeOf(tyInner{}),
}

var tyNumberType = reflect.TypeOf(ijson.Number(""))
var tyAnyType = reflect.TypeOf((*interface{})(nil)).Elem()

// ---------- generated types ----------

var tyFieldNames = []string{"A", "B", "C", "X", "Ab", "AB", "Name", "K9", "Zeta", "É", "X_1", "a", "b", "x1"}
var tyEmbedNames = []string{"E1", "E2", "Inner", "A", "B", "Em"}
var tyTagNames = []string{"", "", "", "a", "A", "B", "b", "name", "K9", "x-1", "ſ", "K", "k", "-", "with space", "é", "<t>", "a&b",
	"a\"b", "b\\s", " ", "\xff", "a\x01", "$%", "a.b", "1", "日本", "٣", "_", "a b!#$%&()*+-./:;<=>?@[]^_{|}~", "ª", "²", "x́"}
var tyTagOpts = []string{"", "", "", ",omitempty", ",string", ",omitempty,string", ",string,omitempty", ",", ",omitempt", ",omitempty,",
	", string", ",STRING", ",x,omitempty", ",string,string", ",omitemptyx", ",strings", ",stringx,omitempty", ",xstring", ",omitempty ",
	",str", ",omit,empty"}

type tyGen struct {
	r         *rng
	hasNumber bool
	// other pools of field and tag names (stream typeddec); nil = tyFieldNames / tyTagNames
	names, tags []string
}

func (g *tyGen) intType() reflect.Type {
	return []reflect.Type{reflect.TypeOf(int(0)), reflect.TypeOf(int8(0)), reflect.TypeOf(int16(0)), reflect.TypeOf(int32(0)), reflect.TypeOf(int64(0))}[g.r.n(5)]
}

func (g *tyGen) uintType() reflect.Type {
	return []reflect.Type{reflect.TypeOf(uint(0)), reflect.TypeOf(uint8(0)), reflect.TypeOf(uint16(0)), reflect.TypeOf(uint32(0)), reflect.TypeOf(uint64(0))}[g.r.n(5)]
}

func (g *tyGen) keyType() reflect.Type {
	switch g.r.n(5) {
	case 0:
		return g.intType()
	case 1:
		return g.uintType()
	case 2:
		return reflect.TypeOf(uint8(0))
	}
	return reflect.TypeOf("")
}

// any modelled type; depth bounds the nesting of containers and structs
func (g *tyGen) anyType(depth int) reflect.Type {
	r := g.r
	k := r.n(20)
	if depth <= 0 && k >= 9 {
		k = r.n(9)
	}
	switch k {
	case 0:
		return reflect.TypeOf(true)
	case 1:
		return g.intType()
	case 2:
		return g.uintType()
	case 3, 4:
		return reflect.TypeOf("")
	case 5:
		g.hasNumber = true
		return tyNumberType
	case 6:
		return reflect.TypeOf([]byte(nil))
	case 7:
		return tyAnyType
	case 8:
		return reflect.PtrTo([]reflect.Type{reflect.TypeOf(int(0)), reflect.TypeOf(""), reflect.TypeOf(true), reflect.TypeOf(uint8(0))}[r.n(4)])
	case 9, 10:
		return reflect.SliceOf(g.anyType(depth - 1))
	case 11:
		return reflect.ArrayOf(r.n(4), g.anyType(depth-1))
	case 12, 13:
		return reflect.MapOf(g.keyType(), g.anyType(depth-1))
	case 14:
		return reflect.PtrTo(g.anyType(depth - 1))
	case 15:
		return tyBank[r.n(len(tyBank))]
	case 16:
		return reflect.PtrTo(g.structType(depth - 1))
	}
	return g.structType(depth - 1)
}

func (g *tyGen) structType(depth int) reflect.Type {
	r := g.r
	n := r.n(6)
	if r.chance(1, 12) {
		n = 0
	}
	var fs []reflect.StructField
	used := map[string]bool{}
	for i := 0; i < n; i++ {
		var f reflect.StructField
		embed := depth > 0 && r.chance(1, 3)
		if embed {
			f.Name = r.pick(tyEmbedNames)
			f.Anonymous = true
			var t reflect.Type
			switch r.n(8) {
			case 0:
				t = tyBank[r.n(len(tyBank))]
			case 1:
				// an embedded non-struct
				t = []reflect.Type{reflect.TypeOf(int(0)), reflect.TypeOf(""), tyAnyType, reflect.TypeOf([]int(nil)), reflect.TypeOf((*int)(nil))}[r.n(5)]
			default:
				t = g.structType(depth - 1)
			}
			if t.Kind() == reflect.Struct && r.chance(1, 2) {
				t = reflect.PtrTo(t)
			}
			f.Type = t
		} else {
			f.Name = r.pick(tyFieldNames)
			if g.names != nil {
				f.Name = r.pick(g.names)
			}
			f.Type = g.anyType(depth)
			if !token.IsExported(f.Name) {
				// an unexported plain field
				f.PkgPath = "github.com/evanphx/json-patch/v5/zverif"
			}
		}
		if used[f.Name] {
			continue
		}
		used[f.Name] = true
		tag := r.pick(tyTagNames)
		if g.tags != nil {
			tag = r.pick(g.tags)
		}
		if embed && r.chance(2, 3) {
			tag = ""
		}
		opts := r.pick(tyTagOpts)
		if tag != "" || opts != "" {
			f.Tag = reflect.StructTag(`json:` + strconv.Quote(tag+opts))
		}
		fs = append(fs, f)
	}
	return tySafeStructOf(fs)
}

func tySafeStructOf(fs []reflect.StructField) (t reflect.Type) {
	defer func() {
		if recover() != nil {
			// reflect refuses some combinations: fall back to plain exported fields
			var gs []reflect.StructField
			for _, f := range fs {
				f.Anonymous = false
				if f.PkgPath == "" {
					gs = append(gs, f)
				}
			}
			t = reflect.StructOf(gs)
		}
	}()
	return reflect.StructOf(fs)
}

// ---------- values ----------

var tyIntPool = []int64{0, 0, 1, -1, 2, 7, 9, 10, -10, 99, 100, 127, -128, 128, 255, 256, 32767, -32768, 65535, 2147483647, -2147483648,
	4294967295, 9223372036854775807, -9223372036854775808, 1000000, -12345}
var tyUintPool = []uint64{0, 0, 1, 2, 9, 10, 11, 99, 100, 127, 128, 255, 256, 65535, 65536, 4294967295, 4294967296, 18446744073709551615,
	9223372036854775808, 1000000}
var tyNumPool = []string{"", "0", "-0", "1", "12", "-1.5e-3", "1E+2", "1e400", "0.10", "12345678901234567890123", "01", "1.", ".5", "+1", "1e", "x",
	"-", "1e+", "0x10", " 1", "1 ", "NaN", "1.5", "-7", "2.50"}
var tyKeyPool = []string{"a", "b", "B", "aa", "", "é", "10", "9", "-1", "-2", "<k&>", "k ", "q\"t", "b\\s", "z", "Z", "a\x00", "\xff", " ", "0"}

func clampInt(x int64, bits int) int64 {
	if bits == 64 {
		return x
	}
	lo, hi := -(int64(1) << (bits - 1)), (int64(1)<<(bits-1))-1
	if x < lo {
		return lo
	}
	if x > hi {
		return hi
	}
	return x
}

func clampUint(x uint64, bits int) uint64 {
	if bits == 64 {
		return x
	}
	if hi := (uint64(1) << bits) - 1; x > hi {
		return hi
	}
	return x
}

// a settable view of any addressable field, exported or not
func tySettable(v reflect.Value) reflect.Value {
	if v.CanSet() {
		return v
	}
	if v.CanAddr() {
		return reflect.NewAt(v.Type(), unsafe.Pointer(v.UnsafeAddr())).Elem()
	}
	return v
}

func (g *tyGen) str() string {
	r := g.r
	switch r.n(8) {
	case 0:
		return ""
	case 1:
		return r.pick(namePool)
	case 2:
		return string([]byte{byte(r.n(256)), byte(r.n(256)), byte(r.n(256))})
	case 3:
		return r.pick(strPool) + r.pick(strPool)
	}
	return r.pick(strPool)
}

func (g *tyGen) fill(v reflect.Value, depth int) {
	r := g.r
	v = tySettable(v)
	if !v.CanSet() {
		return
	}
	switch v.Kind() {
	case reflect.Bool:
		v.SetBool(r.chance(1, 2))
	case reflect.Int, reflect.Int8, reflect.Int16, reflect.Int32, reflect.Int64:
		v.SetInt(clampInt(tyIntPool[r.n(len(tyIntPool))], v.Type().Bits()))
	case reflect.Uint, reflect.Uint8, reflect.Uint16, reflect.Uint32, reflect.Uint64:
		v.SetUint(clampUint(tyUintPool[r.n(len(tyUintPool))], v.Type().Bits()))
	case reflect.String:
		if v.Type() == tyNumberType {
			if r.chance(9, 10) {
				// mostly valid literals: one invalid Number fails the whole value
				v.SetString(r.pick(tyNumPool[:10]))
			} else {
				v.SetString(r.pick(tyNumPool))
			}
			return
		}
		if r.chance(3, 4) {
			v.SetString(g.str())
		}
	case reflect.Ptr:
		if r.chance(2, 3) {
			v.Set(reflect.New(v.Type().Elem()))
			g.fill(v.Elem(), depth)
		}
	case reflect.Slice:
		if v.Type().Elem().Kind() == reflect.Uint8 {
			switch r.n(4) {
			case 0:
			case 1:
				v.SetBytes([]byte{})
			case 2:
				b := make([]byte, r.n(8))
				if r.chance(1, 6) {
					// the three code paths of encodeByteSlice: scratch (<= 64 encoded), allocation (<= 1024), streaming
					b = make([]byte, []int{46, 47, 48, 49, 50, 766, 767, 768, 769, 770, 1000}[r.n(11)])
				}
				for i := range b {
					b[i] = byte(r.n(256))
				}
				v.SetBytes(b)
			default:
				v.SetBytes([]byte(g.str()))
			}
			return
		}
		if r.chance(3, 4) {
			n := r.n(4)
			if depth <= 0 {
				n = r.n(2)
			}
			s := reflect.MakeSlice(v.Type(), n, n)
			for i := 0; i < n; i++ {
				g.fill(s.Index(i), depth-1)
			}
			v.Set(s)
		}
	case reflect.Array:
		for i := 0; i < v.Len(); i++ {
			g.fill(v.Index(i), depth-1)
		}
	case reflect.Map:
		if r.chance(3, 4) {
			m := reflect.MakeMap(v.Type())
			n := r.n(5)
			if depth <= 0 {
				n = r.n(2)
			}
			for i := 0; i < n; i++ {
				k := reflect.New(v.Type().Key()).Elem()
				if k.Kind() == reflect.String {
					k.SetString(r.pick(tyKeyPool))
				} else {
					g.fill(k, 0)
				}
				e := reflect.New(v.Type().Elem()).Elem()
				g.fill(e, depth-1)
				m.SetMapIndex(k, e)
			}
			v.Set(m)
		}
	case reflect.Interface:
		if r.chance(3, 4) {
			if d := g.dyn(depth - 1); d.IsValid() {
				v.Set(d)
			}
		}
	case reflect.Struct:
		for i := 0; i < v.NumField(); i++ {
			g.fill(v.Field(i), depth-1)
		}
	}
}

// a dynamic value for an interface{}: a value of some modelled type (never itself an interface)
func (g *tyGen) dyn(depth int) reflect.Value {
	r := g.r
	var t reflect.Type
	switch r.n(12) {
	case 0:
		return reflect.Value{}
	case 1:
		t = reflect.TypeOf([]interface{}(nil))
	case 2:
		t = reflect.TypeOf(map[string]interface{}(nil))
	case 3, 4:
		t = reflect.TypeOf("")
	case 5:
		g.hasNumber = true
		t = tyNumberType
	default:
		t = g.anyType(depth)
		for t.Kind() == reflect.Interface {
			t = reflect.TypeOf(true)
		}
	}
	v := reflect.New(t).Elem()
	g.fill(v, depth)
	return v
}

// ---------- rendering (JP/Codec/TypedWire.lean) ----------

func tyStr(b *bytes.Buffer, s string) {
	b.WriteString(strconv.Itoa(len(s)))
	b.WriteByte(':')
	b.WriteString(s)
}

var tyIntCode = map[reflect.Kind]byte{reflect.Int: '0', reflect.Int8: '1', reflect.Int16: '2', reflect.Int32: '3', reflect.Int64: '4',
	reflect.Uint: '0', reflect.Uint8: '1', reflect.Uint16: '2', reflect.Uint32: '3', reflect.Uint64: '4'}

func renderType(b *bytes.Buffer, t reflect.Type) {
	switch t.Kind() {
	case reflect.Bool:
		b.WriteByte('b')
	case reflect.Int, reflect.Int8, reflect.Int16, reflect.Int32, reflect.Int64:
		b.WriteByte('i')
		b.WriteByte(tyIntCode[t.Kind()])
	case reflect.Uint, reflect.Uint8, reflect.Uint16, reflect.Uint32, reflect.Uint64:
		b.WriteByte('u')
		b.WriteByte(tyIntCode[t.Kind()])
	case reflect.String:
		if t == tyNumberType || t == tyStdNumberType {
			b.WriteByte('n')
		} else {
			b.WriteByte('s')
		}
	case reflect.Slice:
		b.WriteByte('l')
		renderType(b, t.Elem())
	case reflect.Array:
		b.WriteByte('a')
		b.WriteString(strconv.Itoa(t.Len()))
		b.WriteByte(':')
		renderType(b, t.Elem())
	case reflect.Map:
		b.WriteByte('m')
		if t.Key().Kind() == reflect.String {
			b.WriteByte('s')
		} else {
			renderType(b, t.Key())
		}
		renderType(b, t.Elem())
	case reflect.Ptr:
		b.WriteByte('p')
		renderType(b, t.Elem())
	case reflect.Interface:
		b.WriteByte('e')
	case reflect.Struct:
		b.WriteByte('S')
		name := t.Name()
		if name != "" {
			name = t.PkgPath() + "." + name
		}
		tyStr(b, name)
		b.WriteString(strconv.Itoa(t.NumField()))
		b.WriteByte(':')
		for i := 0; i < t.NumField(); i++ {
			sf := t.Field(i)
			fl := byte('0')
			if sf.Anonymous {
				fl++
			}
			if sf.IsExported() {
				fl += 2
			}
			b.WriteByte(fl)
			tyStr(b, sf.Name)
			tyStr(b, sf.Tag.Get("json"))
			renderType(b, sf.Type)
		}
	default:
		panic("typed: type outside the model: " + t.String())
	}
}

func renderValue(b *bytes.Buffer, v reflect.Value) {
	switch v.Kind() {
	case reflect.Bool:
		if v.Bool() {
			b.WriteByte('t')
		} else {
			b.WriteByte('f')
		}
	case reflect.Int, reflect.Int8, reflect.Int16, reflect.Int32, reflect.Int64:
		b.WriteByte('i')
		b.WriteString(strconv.FormatInt(v.Int(), 10))
		b.WriteByte(';')
	case reflect.Uint, reflect.Uint8, reflect.Uint16, reflect.Uint32, reflect.Uint64:
		b.WriteByte('u')
		b.WriteString(strconv.FormatUint(v.Uint(), 10))
		b.WriteByte(';')
	case reflect.String:
		b.WriteByte('s')
		tyStr(b, v.String())
	case reflect.Slice:
		if v.IsNil() {
			b.WriteByte('z')
			return
		}
		if v.Type().Elem().Kind() == reflect.Uint8 {
			b.WriteByte('y')
			bs := make([]byte, v.Len())
			for i := range bs {
				bs[i] = byte(v.Index(i).Uint())
			}
			tyStr(b, string(bs))
			return
		}
		fallthrough
	case reflect.Array:
		b.WriteByte('l')
		b.WriteString(strconv.Itoa(v.Len()))
		b.WriteByte(':')
		for i := 0; i < v.Len(); i++ {
			renderValue(b, v.Index(i))
		}
	case reflect.Map:
		if v.IsNil() {
			b.WriteByte('z')
			return
		}
		b.WriteByte('m')
		b.WriteString(strconv.Itoa(v.Len()))
		b.WriteByte(':')
		// a fixed order (the request text must not depend on Go's map iteration), but not the order of the key texts
		var ents []string
		it := v.MapRange()
		for it.Next() {
			var eb bytes.Buffer
			renderValue(&eb, it.Key())
			eb.WriteByte(0)
			renderValue(&eb, it.Value())
			ents = append(ents, eb.String())
		}
		sort.Sort(sort.Reverse(sort.StringSlice(ents)))
		for _, e := range ents {
			k := strings.IndexByte(e, 0)
			if e[0] == 's' {
				// a string key may contain the separator: its length prefix says where it ends
				c := strings.IndexByte(e, ':')
				n, _ := strconv.Atoi(e[1:c])
				k = c + 1 + n
			}
			b.WriteString(e[:k])
			b.WriteString(e[k+1:])
		}
	case reflect.Ptr:
		if v.IsNil() {
			b.WriteByte('z')
			return
		}
		b.WriteByte('p')
		renderValue(b, v.Elem())
	case reflect.Interface:
		if v.IsNil() {
			b.WriteByte('z')
			return
		}
		b.WriteByte('e')
		renderType(b, v.Elem().Type())
		renderValue(b, v.Elem())
	case reflect.Struct:
		b.WriteByte('S')
		b.WriteString(strconv.Itoa(v.NumField()))
		b.WriteByte(':')
		for i := 0; i < v.NumField(); i++ {
			renderValue(b, v.Field(i))
		}
	default:
		panic("typed: value outside the model: " + v.Type().String())
	}
}

// ---------- the stream ----------

func tyStdMarshal(v interface{}, esc bool) ([]byte, error) {
	var b bytes.Buffer
	e := stdjson.NewEncoder(&b)
	e.SetEscapeHTML(esc)
	if err := e.Encode(v); err != nil {
		return nil, err
	}
	return bytes.TrimSuffix(b.Bytes(), []byte("\n")), nil
}

func emitTyped(id string, esc bool, typ reflect.Type, val reflect.Value, std bool) {
	var tb, vb bytes.Buffer
	renderType(&tb, typ)
	renderValue(&vb, val)
	var arg interface{}
	if val.IsValid() && !(val.Kind() == reflect.Interface && val.IsNil()) {
		arg = val.Interface()
	}
	var out []byte
	var oerr error
	res := guarded(func() string {
		out, oerr = ijson.MarshalEscaped(arg, esc)
		return codecObs(out, oerr)
	})
	emit("CODEC %s typed %s %s %s => %s", id, b01(esc), hx(tb.Bytes()), hx(vb.Bytes()), res)
	if std && res != "panic" && res != "hang" {
		sres := guarded(func() string {
			b, be := tyStdMarshal(arg, esc)
			if (oerr == nil) != (be == nil) {
				return "diff:error"
			}
			if oerr == nil && !bytes.Equal(tyNorm(out), tyNorm(b)) {
				return "diff:bytes"
			}
			return "same"
		})
		if sres != "same" && os.Getenv("JP_TRACE") != "" {
			fmt.Fprintf(os.Stderr, "TRACE typed %s %s\n  type %s\n  fork %s\n", id, sres, typ.String(), out)
		}
		emit("STD %ss typed-%s => %s", id, tyFamily(typ), sres)
	}
}

// U+0008 / U+000C are spelled \b / \f by the standard library since Go 1.22 and \u0008 / \u000c by the fork
// (DESIGN 13.4); inside a string marshalled twice (`,string`) the spelling sits one level deeper
func tyNorm(b []byte) []byte {
	b = normBF(b)
	b = bytes.ReplaceAll(b, []byte(`\\u0008`), []byte(`\\b`))
	return bytes.ReplaceAll(b, []byte(`\\u000c`), []byte(`\\f`))
}

// json.Number anywhere in the value (also behind interfaces): it is the fork's own type
func tyValHasNumber(v reflect.Value, d int) bool {
	if d > 12 {
		return false
	}
	switch v.Kind() {
	case reflect.String:
		return v.Type() == tyNumberType
	case reflect.Ptr, reflect.Interface:
		return !v.IsNil() && tyValHasNumber(v.Elem(), d+1)
	case reflect.Slice, reflect.Array:
		for i := 0; i < v.Len(); i++ {
			if tyValHasNumber(v.Index(i), d+1) {
				return true
			}
		}
	case reflect.Map:
		it := v.MapRange()
		for it.Next() {
			if tyValHasNumber(it.Value(), d+1) {
				return true
			}
		}
	case reflect.Struct:
		for i := 0; i < v.NumField(); i++ {
			if tyValHasNumber(v.Field(i), d+1) {
				return true
			}
		}
	}
	return false
}

func tyHasNumber(t reflect.Type, d int) bool {
	if t == tyNumberType {
		return true
	}
	if d > 12 {
		return false
	}
	switch t.Kind() {
	case reflect.Slice, reflect.Array, reflect.Ptr, reflect.Map:
		return tyHasNumber(t.Elem(), d+1)
	case reflect.Struct:
		for i := 0; i < t.NumField(); i++ {
			if tyHasNumber(t.Field(i).Type, d+1) {
				return true
			}
		}
	}
	return false
}

func tyFamily(t reflect.Type) string {
	if t.Kind() == reflect.Struct {
		if t.Name() != "" {
			return "declared-struct"
		}
		return "struct"
	}
	return strings.ToLower(t.Kind().String())
}

func streamTyped(r *rng, n int, pfx string) {
	for i := 0; i < n; i++ {
		id := fmt.Sprintf("%s%d", pfx, i)
		g := &tyGen{r: r}
		var typ reflect.Type
		switch k := r.n(10); {
		case k < 5:
			typ = g.structType(3)
		case k == 5:
			typ = tyBank[r.n(len(tyBank))]
		case k == 6:
			typ = reflect.PtrTo(g.structType(2))
		case k == 7:
			typ = tyAnyType
		default:
			typ = g.anyType(3)
		}
		val := reflect.New(typ).Elem()
		g.fill(val, 3)
		// json.Number is the fork's own type: the standard library would print it as a string
		emitTyped(id, r.chance(1, 2), typ, val, !g.hasNumber && !tyHasNumber(typ, 0) && !tyValHasNumber(val, 0))
	}
}

// ---------- replay: a request line back into a Go value ----------

var tyNamed = func() map[string]reflect.Type {
	m := map[string]reflect.Type{}
	var walk func(t reflect.Type)
	walk = func(t reflect.Type) {
		switch t.Kind() {
		case reflect.Ptr, reflect.Slice, reflect.Array, reflect.Map:
			walk(t.Elem())
		case reflect.Struct:
			if t.Name() != "" {
				if _, ok := m[t.PkgPath()+"."+t.Name()]; ok {
					return
				}
				m[t.PkgPath()+"."+t.Name()] = t
			}
			for i := 0; i < t.NumField(); i++ {
				walk(t.Field(i).Type)
			}
		}
	}
	for _, t := range tyBank {
		walk(t)
	}
	return m
}()

type tyParser struct {
	b []byte
	p int
}

func (q *tyParser) byte() byte {
	if q.p >= len(q.b) {
		panic("typed replay: short input")
	}
	c := q.b[q.p]
	q.p++
	return c
}

func (q *tyParser) num(end byte) int64 {
	st := q.p
	for q.byte() != end {
	}
	n, err := strconv.ParseInt(string(q.b[st:q.p-1]), 10, 64)
	if err != nil {
		u, err2 := strconv.ParseUint(string(q.b[st:q.p-1]), 10, 64)
		if err2 != nil {
			panic("typed replay: number")
		}
		return int64(u)
	}
	return n
}

func (q *tyParser) str() string {
	n := int(q.num(':'))
	if q.p+n > len(q.b) {
		panic("typed replay: short string")
	}
	s := string(q.b[q.p : q.p+n])
	q.p += n
	return s
}

var tyIntTypes = []reflect.Type{reflect.TypeOf(int(0)), reflect.TypeOf(int8(0)), reflect.TypeOf(int16(0)), reflect.TypeOf(int32(0)), reflect.TypeOf(int64(0))}
var tyUintTypes = []reflect.Type{reflect.TypeOf(uint(0)), reflect.TypeOf(uint8(0)), reflect.TypeOf(uint16(0)), reflect.TypeOf(uint32(0)), reflect.TypeOf(uint64(0))}

func (q *tyParser) typ() reflect.Type {
	switch c := q.byte(); c {
	case 'b':
		return reflect.TypeOf(true)
	case 'i':
		return tyIntTypes[q.byte()-'0']
	case 'u':
		return tyUintTypes[q.byte()-'0']
	case 's':
		return reflect.TypeOf("")
	case 'n':
		return tyNumberType
	case 'l':
		return reflect.SliceOf(q.typ())
	case 'a':
		n := int(q.num(':'))
		return reflect.ArrayOf(n, q.typ())
	case 'm':
		k := q.typ()
		return reflect.MapOf(k, q.typ())
	case 'p':
		return reflect.PtrTo(q.typ())
	case 'e':
		return tyAnyType
	case 'S':
		name := q.str()
		n := int(q.num(':'))
		var fs []reflect.StructField
		for i := 0; i < n; i++ {
			fl := q.byte() - '0'
			f := reflect.StructField{Name: q.str()}
			if tag := q.str(); tag != "" {
				f.Tag = reflect.StructTag(`json:` + strconv.Quote(tag))
			}
			f.Type = q.typ()
			f.Anonymous = fl&1 == 1
			if fl&2 == 0 {
				f.PkgPath = "github.com/evanphx/json-patch/v5/zverif"
			}
			fs = append(fs, f)
		}
		if name != "" {
			if t, ok := tyNamed[name]; ok {
				return t
			}
			panic("typed replay: unknown declared type " + name)
		}
		return reflect.StructOf(fs)
	}
	panic("typed replay: type")
}

func (q *tyParser) val(v reflect.Value) {
	v = tySettable(v)
	switch c := q.byte(); c {
	case 'z':
	case 't', 'f':
		v.SetBool(c == 't')
	case 'i':
		v.SetInt(q.num(';'))
	case 'u':
		v.SetUint(uint64(q.num(';')))
	case 's':
		v.SetString(q.str())
	case 'y':
		v.SetBytes([]byte(q.str()))
	case 'l', 'S':
		n := int(q.num(':'))
		if v.Kind() == reflect.Slice {
			v.Set(reflect.MakeSlice(v.Type(), n, n))
		}
		for i := 0; i < n; i++ {
			if v.Kind() == reflect.Struct {
				q.val(v.Field(i))
			} else {
				q.val(v.Index(i))
			}
		}
	case 'm':
		n := int(q.num(':'))
		m := reflect.MakeMap(v.Type())
		for i := 0; i < n; i++ {
			k := reflect.New(v.Type().Key()).Elem()
			q.val(k)
			e := reflect.New(v.Type().Elem()).Elem()
			q.val(e)
			m.SetMapIndex(k, e)
		}
		v.Set(m)
	case 'p':
		v.Set(reflect.New(v.Type().Elem()))
		q.val(v.Elem())
	case 'e':
		d := reflect.New(q.typ()).Elem()
		q.val(d)
		v.Set(d)
	default:
		panic("typed replay: value")
	}
}

func replayTyped(id string, esc string, tb, vb []byte) {
	defer func() {
		if r := recover(); r != nil {
			fmt.Fprintln(os.Stderr, "typed replay:", r)
		}
	}()
	typ := (&tyParser{b: tb}).typ()
	val := reflect.New(typ).Elem()
	(&tyParser{b: vb}).val(val)
	emitTyped(id, esc == "1", typ, val, false)
}
