package main

import (
	"fmt"
	jsonpatch "github.com/evanphx/json-patch/v5"
	ijson "github.com/evanphx/json-patch/v5/internal/json"
)

func main() {
	fmt.Println(ijson.Valid([]byte("[1]")), jsonpatch.Equal([]byte("[1]"), []byte("[1]")), ijson.VerifMaxNestingDepth)
}
