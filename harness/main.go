package main

// Differential harness: generates cases, runs the real library in-process and prints one
// protocol line per case (`CMD id fields… => observed…`), to be judged by the Lean driver.

import (
	"bufio"
	"bytes"
	"encoding/hex"
	"errors"
	"fmt"
	"os"
	"strconv"
	"strings"
	"sync"
	"sync/atomic"
	"time"

	legacy "github.com/evanphx/json-patch"
	jsonpatch "github.com/evanphx/json-patch/v5"
	ijson "github.com/evanphx/json-patch/v5/internal/json"
)

var out *bufio.Writer

func hx(b []byte) string {
	if len(b) == 0 {
		return "-"
	}
	return hex.EncodeToString(b)
}

var emitMu sync.Mutex

func emit(format string, a ...interface{}) {
	emitMu.Lock()
	defer emitMu.Unlock()
	fmt.Fprintf(out, format, a...)
	out.WriteByte('\n')
}

// ---------- guarded calls ----------

const hangAfter = 180 * time.Second

// a call that has not returned after hangAfter is reported as "hang"; its goroutine cannot
// be stopped and keeps a core busy, so later waits are shorter and after three hangs the
// stream ends (a hang is a violation already; the lines written so far are kept)
var hangs atomic.Int32

func guarded(f func() string) string {
	if hangs.Load() >= 3 {
		out.Flush()
		os.Exit(0)
	}
	wait := hangAfter
	if hangs.Load() > 0 {
		wait = 30 * time.Second
	}
	ch := make(chan string, 1)
	go func() {
		defer func() {
			if r := recover(); r != nil {
				ch <- "panic"
			}
		}()
		ch <- f()
	}()
	select {
	case s := <-ch:
		return s
	case <-time.After(wait):
		hangs.Add(1)
		return "hang"
	}
}

func errFlag(err error) string {
	var ce *jsonpatch.AccumulatedCopySizeError
	var lce *legacy.AccumulatedCopySizeError
	switch {
	case errors.As(err, &ce), errors.As(err, &lce):
		return "C"
	case errors.Is(err, jsonpatch.ErrTestFailed), errors.Is(err, legacy.ErrTestFailed):
		return "T"
	case errors.Is(err, jsonpatch.ErrMissing), errors.Is(err, legacy.ErrMissing):
		return "M"
	case errors.Is(err, jsonpatch.ErrInvalidIndex), errors.Is(err, legacy.ErrInvalidIndex):
		return "I"
	case errors.Is(err, jsonpatch.ErrInvalid), errors.Is(err, legacy.ErrInvalid):
		return "V"
	case errors.Is(err, jsonpatch.ErrExpectedObject):
		return "X"
	case err == jsonpatch.ErrBadJSONDoc, err == legacy.ErrBadJSONDoc:
		return "D"
	case err == jsonpatch.ErrBadJSONPatch, err == legacy.ErrBadJSONPatch:
		return "P"
	case err.Error() == "Mismatched JSON Documents":
		return "Y"
	}
	return "-"
}

// results handed to the caller earlier that the caller still holds: a later call must not
// write to them (C09).  Bounded ring; only used by the hist/conc streams.
type heldResult struct {
	live []byte
	snap []byte
}

var heldMu sync.Mutex
var held []heldResult
var holdResults = false

func hold(b []byte) {
	if !holdResults || len(b) == 0 {
		return
	}
	heldMu.Lock()
	defer heldMu.Unlock()
	if len(held) >= 64 {
		held = held[1:]
	}
	held = append(held, heldResult{live: b, snap: append([]byte(nil), b...)})
}

// heldChanged reports (once) that some earlier result no longer has its bytes
func heldChanged() bool {
	heldMu.Lock()
	defer heldMu.Unlock()
	changed := false
	for i := range held {
		if !bytes.Equal(held[i].live, held[i].snap) {
			changed = true
			held[i].snap = append([]byte(nil), held[i].live...)
		}
	}
	return changed
}

func obsOf(outb []byte, err error) string {
	if err == nil {
		hold(outb)
	}
	if err != nil {
		n := "n"
		if outb != nil {
			n = "d"
		}
		return "err:" + errFlag(err) + n
	}
	return "ok:" + hx(outb)
}

type aopts struct {
	neg, allow, ensure, esc bool
	limit                   int64
}

func b01(b bool) string {
	if b {
		return "1"
	}
	return "0"
}
func (o aopts) flags() string { return b01(o.neg) + b01(o.allow) + b01(o.ensure) + b01(o.esc) }

// In the history and concurrency streams calls with the same settings share ONE ApplyOptions
// object, as a caller who keeps its options in a variable does: the library must treat it as
// read-only and must keep no state in it.
var (
	sharedOptsMu sync.Mutex
	sharedOpts   = map[aopts]*jsonpatch.ApplyOptions{}
)

func (o aopts) v5() *jsonpatch.ApplyOptions {
	if holdResults {
		sharedOptsMu.Lock()
		defer sharedOptsMu.Unlock()
		if op, ok := sharedOpts[o]; ok {
			return op
		}
		op := o.fresh()
		sharedOpts[o] = op
		return op
	}
	return o.fresh()
}

// the exported fields of the shared object still say what they were set to
func (o aopts) sharedIntact() bool {
	sharedOptsMu.Lock()
	defer sharedOptsMu.Unlock()
	op, ok := sharedOpts[o]
	if !ok {
		return true
	}
	return op.SupportNegativeIndices == o.neg && op.AllowMissingPathOnRemove == o.allow && op.EnsurePathExistsOnAdd == o.ensure &&
		op.EscapeHTML == o.esc && op.AccumulatedCopySizeLimit == o.limit
}

func (o aopts) fresh() *jsonpatch.ApplyOptions {
	op := jsonpatch.NewApplyOptions()
	op.SupportNegativeIndices = o.neg
	op.AllowMissingPathOnRemove = o.allow
	op.EnsurePathExistsOnAdd = o.ensure
	op.EscapeHTML = o.esc
	op.AccumulatedCopySizeLimit = o.limit
	return op
}

// DecodePatch + ApplyIndentWithOptions
func callApply(o aopts, indent string, doc, patch []byte) string {
	if os.Getenv("JP_TRACE") == "2" {
		fmt.Fprintf(os.Stderr, "TRACE CALL %s %d %s %s %s\n", o.flags(), o.limit, hx([]byte(indent)), hx(doc), hx(patch))
	}
	return guarded(func() string {
		p, err := jsonpatch.DecodePatch(patch)
		if err != nil {
			return "derr"
		}
		scribbleFirst(func(d, _ []byte) ([]byte, error) { return applyVia(p, o, indent, d, len(patch)) }, doc, nil)
		return obsOf(applyVia(p, o, indent, doc, len(patch)))
	})
}

// every exported way of applying a patch is used: which one is a function of the case (never of the generator's
// state, so that a replay takes the same route). With the package defaults in force (negative indices on, no limit,
// nothing allowed or ensured, HTML escaping on) Apply and ApplyIndent are the same call as ApplyIndentWithOptions
// with NewApplyOptions(); ApplyWithOptions is the same call with an empty indent.
func applyVia(p jsonpatch.Patch, o aopts, indent string, doc []byte, salt int) ([]byte, error) {
	defaults := o.neg && !o.allow && !o.ensure && o.esc && o.limit == 0 &&
		jsonpatch.SupportNegativeIndices && jsonpatch.AccumulatedCopySizeLimit == 0
	switch {
	case defaults && indent == "" && salt%3 == 0:
		return p.Apply(doc)
	case defaults && salt%3 == 1:
		return p.ApplyIndent(doc, indent)
	case indent == "" && salt%2 == 0:
		return p.ApplyWithOptions(doc, o.v5())
	}
	return p.ApplyIndentWithOptions(doc, indent, o.v5())
}

func callApplyDecoded(o aopts, indent string, doc []byte, p jsonpatch.Patch) string {
	return guarded(func() string {
		outb, err := p.ApplyIndentWithOptions(doc, indent, o.v5())
		return obsOf(outb, err)
	})
}

// The caller owns what a call returns.  With `scribble` on (history stream), every call is preceded by the SAME call on
// private copies of its arguments whose result is then overwritten with zero bytes, as a caller recycling its buffers
// would: a library that hands out shared storage (a cached or preallocated result) returns the zeros the next time.
var scribble = false

func scribbleFirst(f func(a, b []byte) ([]byte, error), a, b []byte) {
	if !scribble {
		return
	}
	guarded(func() string {
		out, _ := f(append([]byte(nil), a...), append([]byte(nil), b...))
		for i := range out {
			out[i] = 0
		}
		return ""
	})
}

func callMerge(doc, patch []byte) string {
	scribbleFirst(jsonpatch.MergePatch, doc, patch)
	return guarded(func() string { return obsOf(jsonpatch.MergePatch(doc, patch)) })
}
func callMergeMerge(a, b []byte) string {
	scribbleFirst(jsonpatch.MergeMergePatches, a, b)
	return guarded(func() string { return obsOf(jsonpatch.MergeMergePatches(a, b)) })
}
func callCreate(a, b []byte) string {
	scribbleFirst(jsonpatch.CreateMergePatch, a, b)
	return guarded(func() string { return obsOf(jsonpatch.CreateMergePatch(a, b)) })
}
func callEqual(a, b []byte) string {
	return guarded(func() string {
		if jsonpatch.Equal(a, b) {
			return "t"
		}
		return "f"
	})
}

func okBytes(obs string) ([]byte, bool) {
	if !strings.HasPrefix(obs, "ok:") {
		return nil, false
	}
	if obs == "ok:-" {
		return []byte{}, true
	}
	b, err := hex.DecodeString(obs[3:])
	return b, err == nil
}

// ---------- operations ----------

type opSpec struct {
	op, path string
	from     *string
	value    *jv
	extra    bool
}

func (sp spell) opText(o opSpec) string {
	var parts []string
	parts = append(parts, `"op":`+sp.ws()+encString(o.op, false))
	parts = append(parts, `"path":`+sp.ws()+encString(o.path, false))
	if o.from != nil {
		parts = append(parts, `"from":`+encString(*o.from, false))
	}
	if o.value != nil {
		parts = append(parts, `"value":`+sp.ws()+sp.print(o.value))
	}
	if o.extra {
		parts = append(parts, `"comment":"x"`)
	}
	if sp.mode == 2 && sp.r.chance(1, 3) && len(parts) > 2 {
		i, j := sp.r.n(len(parts)), sp.r.n(len(parts))
		parts[i], parts[j] = parts[j], parts[i]
	}
	return "{" + strings.Join(parts, ","+sp.ws()) + "}"
}

func (sp spell) patchText(ops []opSpec) []byte {
	var xs []string
	for _, o := range ops {
		xs = append(xs, sp.opText(o))
	}
	return []byte("[" + strings.Join(xs, ","+sp.ws()) + "]")
}

// last token for a container
func pickToken(r *rng, c *jv, forAdd bool) string {
	if c.kind == kObj {
		k := r.n(100)
		switch {
		case k < 50 && len(c.keys) > 0:
			return encTok(c.keys[r.n(len(c.keys))])
		case k < 85:
			return r.pick(plainNames)
		default:
			return encTok(r.pick(namePool))
		}
	}
	n := len(c.arr)
	k := r.n(100)
	switch {
	case k < 45 && n > 0:
		return strconv.Itoa(r.n(n))
	case k < 55:
		return strconv.Itoa(n)
	case k < 68:
		return "-"
	case k < 72:
		return strconv.Itoa(n + 1)
	case k < 80:
		return "-1"
	case k < 84:
		return strconv.Itoa(-n)
	case k < 88:
		return strconv.Itoa(-n - 1)
	case k < 90:
		return strconv.Itoa(-n - 2)
	case k < 92:
		return "0" + strconv.Itoa(r.n(n+1))
	case k < 94:
		return "+" + strconv.Itoa(r.n(n+1))
	case k < 96:
		return "x"
	default:
		return strconv.Itoa(r.n(n + 1))
	}
}

func pickPath(r *rng, cur *jv, forAdd bool) string {
	var locs []loc
	locations(cur, "", &locs)
	k := r.n(100)
	switch {
	case k < 3:
		return ""
	case k < 5:
		return r.pick([]string{"a/b", "a", "/", "//a", "/a/", "/a//b"})
	case k < 13:
		// through a scalar, a null or something absent
		l := locs[r.n(len(locs))]
		return l.ptr + "/" + r.pick([]string{"zz", "0", "x/y", "0/1", "-"}) + "/" + r.pick([]string{"k", "0", "-"})
	}
	var cons []loc
	for _, l := range locs {
		if l.v.isCon() {
			cons = append(cons, l)
		}
	}
	c := cons[r.n(len(cons))]
	return c.ptr + "/" + pickToken(r, c.v, forAdd)
}

func existingPath(r *rng, cur *jv) string {
	var locs []loc
	locations(cur, "", &locs)
	if len(locs) == 1 {
		return pickPath(r, cur, false)
	}
	return locs[1+r.n(len(locs)-1)].ptr
}

func resolve(cur *jv, ptr string) *jv {
	var locs []loc
	locations(cur, "", &locs)
	for _, l := range locs {
		if l.ptr == ptr {
			return l.v
		}
	}
	return nil
}

// RFC 6901 strictness: now and then a pointer loses its leading '/', an index token is
// respelled non-canonically ("01", "+1", "-0", "-01"), or the root becomes the target
func manglePtr(r *rng, p string) string {
	if p == "" || !r.chance(1, 14) {
		return p
	}
	i := strings.LastIndexByte(p, '/')
	tok := p[i+1:]
	num := tok != "" && strings.Trim(tok, "0123456789") == ""
	switch k := r.n(10); {
	case k < 3:
		return p[1:]
	case k < 8 && num:
		return p[:i+1] + r.pick([]string{"0" + tok, "+" + tok, "-0" + tok, "00" + tok, "-0"})
	case k < 9:
		return ""
	}
	return p
}

func genOp(r *rng, cur *jv, c genCfg) opSpec {
	op := genOp0(r, cur, c)
	op.path = manglePtr(r, op.path)
	if op.from != nil {
		f := manglePtr(r, *op.from)
		if r.chance(1, 25) && len(op.path) > 1 {
			// two faults in one operation: a malformed destination AND a source that fails on
			// its own (the error class must be that of the half the library evaluates first)
			op.path = op.path[1:]
			f = r.pick([]string{"", f + "/99", "/nope", f + "/01", "nope"})
		}
		op.from = &f
	}
	return op
}

func genOp0(r *rng, cur *jv, c genCfg) opSpec {
	k := r.n(100)
	val := func() *jv {
		if r.chance(1, 5) {
			return jnull()
		}
		return genValue(r, genCfg{depth: 2, plain: c.plain, nullW: c.nullW, maxMember: 3}, 1)
	}
	pathOrExisting := func(p int) string {
		if r.n(100) < p {
			return existingPath(r, cur)
		}
		return pickPath(r, cur, false)
	}
	switch {
	case k < 25:
		return opSpec{op: "add", path: pickPath(r, cur, true), value: val()}
	case k < 40:
		return opSpec{op: "remove", path: pathOrExisting(75)}
	case k < 55:
		return opSpec{op: "replace", path: pathOrExisting(75), value: val()}
	case k < 67:
		f := pathOrExisting(85)
		if r.chance(1, 8) {
			// destination spelled as an extension of the source: a sibling ("/a" -> "/a_old", "/l/1" -> "/l/10")
			// or a location inside the moved value ("/a" -> "/a/n0")
			return opSpec{op: "move", path: f + r.pick([]string{"_old", "0", "/n0", "x", "/0"}), from: &f}
		}
		return opSpec{op: "move", path: pickPath(r, cur, true), from: &f}
	case k < 80:
		f := pathOrExisting(85)
		if r.chance(1, 12) {
			f = ""
		}
		return opSpec{op: "copy", path: pickPath(r, cur, true), from: &f}
	default:
		p := pathOrExisting(80)
		var v *jv
		if t := resolve(cur, p); t != nil && r.chance(3, 4) {
			v = t.clone()
			if r.chance(1, 6) {
				// a value of ANOTHER type that looks like the target (its text inside a string, a one-element
				// array around it, the empty value of another kind) or a near copy of it: must compare unequal
				if r.chance(1, 2) {
					var locs []loc
					locations(v, "", &locs)
					lookalike(r, locs[r.n(len(locs))].v)
				} else {
					v = mutateValue(r, v, c)
				}
			}
			if v.kind == kObj && len(v.keys) > 1 && r.chance(1, 2) {
				v.keys[0], v.keys[1] = v.keys[1], v.keys[0]
				v.vals[0], v.vals[1] = v.vals[1], v.vals[0]
			}
		} else if r.chance(1, 6) {
			v = nil // no value member: compares as null
		} else {
			v = val()
		}
		return opSpec{op: "test", path: p, value: v}
	}
}

type acase struct {
	o      aopts
	indent string
	doc    []byte
	ops    []opSpec
	patch  []byte
}

// generate a document and a patch whose pointers are relative to the document as it
// evolves (the prefix is applied with the real library to know the current document)
func genApplyCase(r *rng, c genCfg, o aopts, docMode, patchMode int, maxOps int) acase {
	docv := genContainer(r, c)
	doc := spell{docMode, r}.text(docv)
	psp := spell{patchMode, r}
	nops := r.n(maxOps + 1)
	var ops []opSpec
	cur := docv
	oo := o
	oo.limit = 0
	failed := 0
	for i := 0; i < nops; i++ {
		op := genOp(r, cur, c)
		if o.ensure && op.op == "add" && r.chance(1, 2) {
			op.path = ensurePath(r, cur)
		}
		if len(ops) > 0 && r.chance(1, 3) {
			// an operation RELATED to an earlier one of this patch by the TEXT of its pointer: the same parent with
			// another last token, the same pointer again, or an insertion/removal in an array that an earlier pointer
			// goes through (which renumbers what that text addresses) - anything remembered per pointer text goes stale
			if rel, ok := relatedOp(r, ops, cur, c); ok {
				op = rel
			}
		}
		ops = append(ops, op)
		res := callApply(oo, "", doc, spell{1, r}.patchText(ops))
		if b, ok := okBytes(res); ok {
			if v, err := parseJV(b); err == nil && v.isCon() {
				cur = v
				continue
			}
		}
		// the patch fails from here on; add at most two more operations
		failed++
		if failed > 2 || r.chance(1, 2) {
			break
		}
	}
	return acase{o: o, doc: doc, ops: ops, patch: psp.patchText(ops)}
}

// see genApplyCase
func relatedOp(r *rng, ops []opSpec, cur *jv, c genCfg) (opSpec, bool) {
	e := ops[r.n(len(ops))]
	p := e.path
	if e.from != nil && r.chance(1, 3) {
		p = *e.from
	}
	if !strings.HasPrefix(p, "/") {
		return opSpec{}, false
	}
	toks := strings.Split(p[1:], "/")
	val := func() *jv {
		if r.chance(1, 5) {
			return jnull()
		}
		return genValue(r, genCfg{depth: 2, plain: c.plain, nullW: c.nullW, maxMember: 3}, 1)
	}
	switch k := r.n(10); {
	case k < 4:
		// sibling: same parent text, another last token
		parent := "/" + strings.Join(toks[:len(toks)-1], "/")
		if len(toks) == 1 {
			parent = ""
		}
		tok := r.pick([]string{"n0", "n1", "y", "z", "0", "1", "-", encTok(r.pick(namePool))})
		return opSpec{op: "add", path: parent + "/" + tok, value: val()}, true
	case k < 5 && e.from != nil && strings.HasPrefix(*e.from, "/") && strings.HasPrefix(e.path, "/") && r.chance(1, 2):
		// an earlier copy/move named two places: move one of them BELOW the other (if the two were one shared node,
		// this would make it its own descendant)
		tok := r.pick([]string{"k", "n0", "0", "-"})
		f, t := *e.from, e.path
		if r.chance(1, 2) {
			f, t = t, f
		}
		return opSpec{op: "move", path: t + "/" + tok, from: &f}, true
	case k < 5:
		// the same pointer once more
		switch r.n(4) {
		case 0:
			return opSpec{op: "add", path: p, value: val()}, true
		case 1:
			return opSpec{op: "remove", path: p}, true
		case 2:
			return opSpec{op: "replace", path: p, value: val()}, true
		default:
			v := val()
			if t := resolve(cur, p); t != nil && r.chance(2, 3) {
				v = t.clone()
			}
			return opSpec{op: "test", path: p, value: v}, true
		}
	default:
		// renumber: insert into / remove from an array on the way, at or below the index the earlier pointer used
		var cands []int
		for i := 0; i < len(toks); i++ {
			q := "/" + strings.Join(toks[:i], "/")
			if i == 0 {
				q = ""
			}
			if t := resolve(cur, q); t != nil && t.kind == kArr {
				cands = append(cands, i)
			}
		}
		if len(cands) == 0 {
			return opSpec{}, false
		}
		i := cands[r.n(len(cands))]
		q := "/" + strings.Join(toks[:i], "/")
		if i == 0 {
			q = ""
		}
		used, err := strconv.Atoi(toks[i])
		if err != nil || used < 0 {
			used = 0
		}
		j := used
		if used > 0 && r.chance(2, 3) {
			j = r.n(used + 1)
		}
		at := q + "/" + strconv.Itoa(j)
		switch r.n(4) {
		case 0:
			return opSpec{op: "remove", path: at}, true
		case 1:
			f := existingPath(r, cur)
			return opSpec{op: "copy", path: at, from: &f}, true
		case 2:
			return opSpec{op: "add", path: at, value: &jv{kind: kObj}}, true
		default:
			return opSpec{op: "add", path: at, value: val()}, true
		}
	}
}

// a path for EnsurePathExistsOnAdd: an existing prefix, then fresh tokens
func ensurePath(r *rng, cur *jv) string {
	var locs []loc
	locations(cur, "", &locs)
	var cons []loc
	for _, l := range locs {
		if l.v.isCon() {
			cons = append(cons, l)
		}
	}
	c := cons[r.n(len(cons))]
	p := c.ptr
	n := 1 + r.n(4)
	at := c.v
	for i := 0; i < n; i++ {
		var tok string
		k := r.n(100)
		isArr := at != nil && at.kind == kArr
		switch {
		case isArr && k < 70:
			tok = strconv.Itoa(len(at.arr) + r.n(3))
		case isArr:
			tok = r.pick([]string{"-", "x", "-1", "0"})
		case k < 55:
			tok = "n" + strconv.Itoa(r.n(4))
		case k < 75:
			tok = strconv.Itoa(r.n(4))
		case k < 83:
			tok = "-"
		case k < 93:
			tok = encTok(r.pick(namePool))
		default:
			tok = r.pick([]string{"-1", "01", "+2", "0x1f", "0b101", "1_000", "1e3", "0o17", "0X1F"})
		}
		p += "/" + tok
		at = nil
		if i == 0 {
			// may still be an existing child
			if x := resolve(cur, p); x != nil {
				at = x
			}
		}
	}
	return p
}

func randOpts(r *rng) aopts {
	return aopts{neg: r.chance(3, 4), allow: r.chance(1, 8), ensure: r.chance(1, 10), esc: r.chance(1, 2)}
}

func firstFailing(c acase) string {
	// obs of the patch cut after the first failing operation (same spelling)
	elems := splitArray(c.patch)
	for k := 1; k <= len(elems); k++ {
		res := callApply(c.o, "", c.doc, []byte("["+strings.Join(elems[:k], ",")+"]"))
		if !strings.HasPrefix(res, "ok:") {
			return res
		}
	}
	return ""
}

func emitApply(id string, c acase) {
	if os.Getenv("JP_TRACE") != "" {
		fmt.Fprintf(os.Stderr, "TRACE APPLY %s %s %d %s %s %s\n", id, c.o.flags(), c.o.limit, hx([]byte(c.indent)), hx(c.doc), hx(c.patch))
	}
	docSnap := append([]byte(nil), c.doc...)
	patchSnap := append([]byte(nil), c.patch...)
	obs := callApply(c.o, c.indent, c.doc, c.patch)
	extra := ""
	if strings.HasPrefix(obs, "err:") && len(c.ops) > 1 {
		// the truncated patch is spelled canonically; compare only outcome classes
		if t := firstFailing(c); t != "" {
			extra += " trunc=" + t
		}
	}
	if c.indent != "" {
		extra += " plain=" + callApply(c.o, "", c.doc, c.patch)
	}
	if !bytes.Equal(docSnap, c.doc) || !bytes.Equal(patchSnap, c.patch) {
		extra += " mut=1"
	}
	if c.o.limit > 0 && !holdResults {
		// what each copy is worth, read off the outputs of the truncated patch (C12, also on repeated names)
		extra += copySizesTag(c)
	}
	emit("APPLY %s %s %d %s %s %s => %s%s", id, c.o.flags(), c.o.limit, hx([]byte(c.indent)), hx(c.doc), hx(c.patch), obs, extra)
}

// ---------- streams ----------

func cfgFor(r *rng) genCfg {
	return genCfg{depth: 1 + r.n(3), plain: r.chance(1, 3), nullW: 1 + r.n(3), maxMember: 2 + r.n(3)}
}

func streamApply(r *rng, n int, pfx string) {
	for i := 0; i < n; i++ {
		o := randOpts(r)
		dm, pm := r.n(3), r.n(3)
		c := genApplyCase(r, cfgFor(r), o, dm, pm, 6)
		if r.chance(1, 10) {
			c.indent = r.pick([]string{" ", "  ", "\t", "    "})
		}
		if r.chance(1, 250) {
			// a DEEP document (either side of 1000, 1024, 2048 levels), usually indented: depth limits other than the
			// decoder's own 10000 must not exist anywhere between input and output
			k := []int{100, 999, 1000, 1001, 1023, 1024, 1025, 1200, 2047, 2048, 2049}[r.n(11)]
			var ops []opSpec
			one, _ := parseJV([]byte("1"))
			if r.chance(1, 2) {
				c.doc = []byte(strings.Repeat("[", k) + `"<&>"` + strings.Repeat("]", k))
				if r.chance(1, 2) {
					ops = append(ops, opSpec{op: "add", path: "/-", value: one})
				}
			} else {
				c.doc = []byte(strings.Repeat(`{"a":`, k) + `[]` + strings.Repeat("}", k))
				if r.chance(1, 2) {
					ops = append(ops, opSpec{op: "add", path: "/b", value: one})
				}
			}
			c.ops, c.patch = ops, spell{0, r}.patchText(ops)
			c.indent = r.pick([]string{" ", "\t", "", " "})
		}
		emitApply(fmt.Sprintf("%s%d", pfx, i), c)
		if r.chance(1, 300) {
			emitApply(fmt.Sprintf("%s%dB", pfx, i), bigApplyCase(r, o, []int{1100, 1100, 4200, 4200, 66000}[r.n(5)]))
		}
	}
}

func streamEnsure(r *rng, n int, pfx string) {
	for i := 0; i < n; i++ {
		o := randOpts(r)
		o.ensure = true
		o.allow = false
		c := genApplyCase(r, cfgFor(r), o, r.n(3), r.n(3), 4)
		emitApply(fmt.Sprintf("%s%d", pfx, i), c)
	}
}

// a BIG document: one wide object (its text just over 1 KiB, 4 KiB or 64 KiB, where size-gated fast paths and
// buffer classes change) next to a few small members, and a patch that first goes INTO the wide object (so that
// it is decoded) and then copies, moves or tests it as a whole
func bigApplyCase(r *rng, o aopts, size int) acase {
	lits := []string{"1.0", "1e400", "-0", "12345678901234567890123", "0.10", "7", "true", "null", `"x<y>&z"`, `"\u00e9"`, `{"a":1,"b":[1,2]}`, `[1,{"c":null}]`, `""`}
	var sb strings.Builder
	sb.WriteString(`{"id":1,"settings":{`)
	var keys []string
	order := r.n(10000)
	for i := 0; sb.Len() < size; i++ {
		k := fmt.Sprintf("option-%04d-%s", (i*37+order)%10000, strings.Repeat("x", 4+r.n(8)))
		keys = append(keys, k)
		if i > 0 {
			sb.WriteByte(',')
		}
		if size > 5000 && i%2 == 1 {
			// bytes, not members, make such a document big (the model's association lists are quadratic in members)
			fmt.Fprintf(&sb, `"%s":"%s"`, k, strings.Repeat(r.pick([]string{"lorem ipsum ", "<b>&amp;</b> ", "\\u00e9\\n ", "0123456789abcdef"}), 60+r.n(40)))
			continue
		}
		fmt.Fprintf(&sb, `"%s":%s`, k, lits[r.n(len(lits))])
	}
	sb.WriteString(`},"list":[{"n":1},[2],3],"tail":"end"}`)
	doc := []byte(sb.String())
	k := func() string { return "/settings/" + keys[r.n(len(keys))] }
	one := jnum("1")
	st, mv, l0 := "/settings", "/moved", "/list/0"
	var ops []opSpec
	switch r.n(5) {
	case 0:
		ops = []opSpec{{op: "replace", path: k(), value: one}, {op: "copy", path: "/backup", from: &st}}
	case 1:
		ops = []opSpec{{op: "add", path: "/settings/new", value: jnull()}, {op: "move", path: mv, from: &st}, {op: "add", path: "/moved/new2", value: one}}
	case 2:
		ops = []opSpec{{op: "remove", path: k()}, {op: "copy", path: l0, from: &st}, {op: "add", path: "/list/0/added", value: one}, {op: "replace", path: "/list/0/added", value: jnull()}}
	case 3:
		kk := k()
		ops = []opSpec{{op: "copy", path: "/settings/dup", from: &kk}, {op: "copy", path: "/backup", from: &st}, {op: "copy", path: "/backup2", from: &st}, {op: "remove", path: "/backup/dup"}}
	default:
		ops = []opSpec{{op: "add", path: k(), value: jstr("changed")}, {op: "copy", path: "/tail", from: &st}, {op: "move", path: "/settings", from: &st}}
	}
	if r.chance(1, 3) {
		ops = ops[:1+r.n(len(ops))]
	}
	return acase{o: o, doc: doc, ops: ops, patch: spell{r.n(3), r}.patchText(ops)}
}

// cumulative copy totals, learnt from the library's own error values
func copyTotals(c acase) []int64 {
	var totals []int64
	limit := int64(1)
	for len(totals) < 16 {
		o := c.o
		o.limit = limit
		p, err := jsonpatch.DecodePatch(c.patch)
		if err != nil {
			return totals
		}
		var acc int64 = -1
		guarded(func() string {
			_, err := p.ApplyWithOptions(c.doc, o.v5())
			var ce *jsonpatch.AccumulatedCopySizeError
			if errors.As(err, &ce) {
				s := ce.Error()
				// "Unable to complete the copy, the accumulated size increase of copy is %d, exceeding the limit %d"
				if i := strings.Index(s, "copy is "); i >= 0 {
					rest := s[i+len("copy is "):]
					if j := strings.Index(rest, ","); j >= 0 {
						acc, _ = strconv.ParseInt(rest[:j], 10, 64)
					}
				}
			}
			return ""
		})
		if acc <= 0 {
			return totals
		}
		totals = append(totals, acc)
		limit = acc
	}
	return totals
}

func streamLimit(r *rng, n int, pfx string) {
	for i := 0; i < n; {
		o := randOpts(r)
		o.ensure = false
		gc := cfgFor(r)
		if r.chance(1, 5) {
			// repeated member names: the copy is as big as the text the encoder writes for it (one member per
			// occurrence of a name once the object has been decoded), whatever value that text denotes
			gc.dups = true
			gc.plain = false
			gc.maxMember = 5
		}
		c := genApplyCase(r, gc, o, r.n(3), r.n(3), 6)
		hasCopy := false
		for _, op := range c.ops {
			if op.op == "copy" {
				hasCopy = true
			}
		}
		if !hasCopy {
			// make one: duplicate something existing
			var docv *jv
			if v, err := parseJV(c.doc); err == nil {
				docv = v
			} else {
				continue
			}
			f := existingPath(r, docv)
			c.ops = append([]opSpec{{op: "copy", path: pickPath(r, docv, true), from: &f}}, c.ops...)
			c.patch = spell{r.n(3), r}.patchText(c.ops)
		}
		totals := copyTotals(c)
		if len(totals) == 0 {
			c.o.limit = int64(1 + r.n(50))
		} else {
			t := totals[r.n(len(totals))]
			c.o.limit = t + int64(r.n(3)) - 1
			if c.o.limit < 0 {
				c.o.limit = 0
			}
		}
		emitApply(fmt.Sprintf("%s%d", pfx, i), c)
		i++
	}
}

func streamAllow(r *rng, n int, pfx string) {
	for i := 0; i < n; i++ {
		o := randOpts(r)
		o.allow = true
		o.ensure = false
		cfg := cfgFor(r)
		c := genApplyCase(r, cfg, o, r.n(3), 1, 6)
		// make removes frequent: turn some operations into removes of near-miss paths
		if v, err := parseJV(c.doc); err == nil {
			for k := range c.ops {
				if r.chance(1, 4) {
					c.ops[k] = opSpec{op: "remove", path: pickPath(r, v, false)}
				}
			}
		}
		var texts []string
		for _, op := range c.ops {
			texts = append(texts, spell{1, r}.opText(op))
		}
		allowLine(fmt.Sprintf("%s%d", pfx, i), o, c.doc, texts)
	}
}

// ALLOW line: the patch with the option on, the removes the option skips (found by
// applying one operation at a time), and the rewritten patch with the option off
func allowLine(id string, o aopts, doc []byte, texts []string) {
	join := func(xs []string) []byte { return []byte("[" + strings.Join(xs, ",") + "]") }
	on := o
	on.allow = true
	off := o
	off.allow = false
	cur := doc
	var skipped []string
	var kept []string
	alive := true
	for k, t := range texts {
		if !alive {
			kept = append(kept, t)
			continue
		}
		one := join([]string{t})
		ron := callApply(on, "", cur, one)
		isRemove := false
		if p, err := jsonpatch.DecodePatch(one); err == nil && len(p) == 1 && p[0].Kind() == "remove" {
			isRemove = true
		}
		if isRemove {
			roff := callApply(off, "", cur, one)
			if strings.HasPrefix(ron, "ok:") && !strings.HasPrefix(roff, "ok:") {
				skipped = append(skipped, strconv.Itoa(k))
				if b, ok := okBytes(ron); ok {
					cur = b
				}
				continue
			}
		}
		kept = append(kept, t)
		if b, ok := okBytes(ron); ok {
			cur = b
		} else {
			alive = false
		}
	}
	patch := join(texts)
	obsOn := callApply(on, "", doc, patch)
	obsOff := callApply(off, "", doc, join(kept))
	sk := "-"
	if len(skipped) > 0 {
		sk = strings.Join(skipped, ",")
	}
	emit("ALLOW %s %s %s %s => %s %s %s", id, on.flags(), hx(doc), hx(patch), obsOn, sk, obsOff)
}

func streamTestTr(r *rng, n int, pfx string) {
	for i := 0; i < n; {
		o := randOpts(r)
		o.allow, o.ensure = false, false
		dm := r.n(3)
		c := genApplyCase(r, cfgFor(r), o, dm, dm, 6)
		// sprinkle tests of the current value
		var ops2 []opSpec
		hasTest := false
		for _, op := range c.ops {
			if op.op == "test" {
				hasTest = true
			} else {
				ops2 = append(ops2, op)
			}
		}
		if !hasTest {
			continue
		}
		sp := spell{dm, r}
		if dm == 2 {
			sp = spell{1, r}
		}
		p1, p2 := sp.patchText(c.ops), sp.patchText(ops2)
		a := callApply(o, "", c.doc, p1)
		if !strings.HasPrefix(a, "ok:") {
			continue
		}
		b := callApply(o, "", c.doc, p2)
		emit("TESTTR %s%d %s %s %s %s => %s %s", pfx, i, o.flags(), hx(c.doc), hx(p1), hx(p2), a, b)
		i++
	}
}

// t is overwritten in place by a value of a different type that resembles it: the value's own JSON text held
// in a string (and back), a one-element array around it (and back), the empty/zero value of another kind
func lookalike(r *rng, t *jv) {
	var w *jv
	switch r.n(4) {
	case 0:
		w = jstr(spell{1, r}.print(t))
	case 1:
		if t.kind == kStr {
			if x, err := parseJV([]byte(t.s)); err == nil {
				w = x
				break
			}
		}
		w = jstr(spell{0, r}.print(t))
	case 2:
		if t.kind == kArr && len(t.arr) == 1 {
			w = t.arr[0]
		} else {
			w = &jv{kind: kArr, arr: []*jv{t.clone()}}
		}
	default:
		empties := []string{"{}", "[]", `""`, "null", "0", "false", `"null"`, `"0"`, `"false"`, `"{}"`, `"[]"`, "[null]", `{"":null}`}
		w, _ = parseJV([]byte(r.pick(empties)))
	}
	*t = *w
}

// a number literal denoting a different real number so close that both round to the same float64 (or float32)
func nearNumber(r *rng, lit string) string {
	switch {
	case strings.ContainsAny(lit, "eE"):
		i := strings.IndexAny(lit, "eE")
		m := lit[:i]
		if !strings.Contains(m, ".") {
			m += "."
		}
		return m + "00000000000000000001" + lit[i:]
	case strings.Contains(lit, "."):
		return lit + r.pick([]string{"00000000000000001", "000000000000000000000001", "0000000000000000000000000000000000000000001"})
	case len(strings.TrimLeft(lit, "-")) >= 17:
		last := lit[len(lit)-1]
		if last == '9' {
			return lit[:len(lit)-1] + "8"
		}
		return lit[:len(lit)-1] + string(last+1)
	case r.chance(1, 3) && strings.TrimLeft(lit, "-") != "0":
		// (not for 0 / -0: a digit after a leading zero is not a JSON number)
		return lit + "0000000000000000" + r.pick([]string{"1", "7"}) // an integer beyond 2^53 next to another one
	}
	return lit + ".00000000000000000001"
}

// a value derived from v by a few random edits
func mutateValue(r *rng, v *jv, c genCfg) *jv {
	w := v.clone()
	edits := 1 + r.n(3)
	for e := 0; e < edits; e++ {
		var locs []loc
		locations(w, "", &locs)
		l := locs[r.n(len(locs))]
		t := l.v
		switch r.n(9) {
		case 8:
			// a DIFFERENT number that a binary floating-point reading cannot tell from this one
			var nums []*jv
			for _, l := range locs {
				if l.v.kind == kNum {
					nums = append(nums, l.v)
				}
			}
			if len(nums) > 0 {
				x := nums[r.n(len(nums))]
				x.lit = nearNumber(r, x.lit)
			}
		case 7:
			// same number of members, one of them under another name
			if t.kind == kObj && len(t.keys) > 0 {
				name := r.pick(plainNames)
				dup := false
				for _, k := range t.keys {
					dup = dup || k == name
				}
				if !dup {
					t.keys[r.n(len(t.keys))] = name
				}
			}
		case 6:
			lookalike(r, t)
		case 0:
			if t.kind == kObj && len(t.keys) > 0 {
				i := r.n(len(t.keys))
				t.keys = append(t.keys[:i:i], t.keys[i+1:]...)
				t.vals = append(t.vals[:i:i], t.vals[i+1:]...)
			}
		case 1:
			if t.kind == kObj {
				name := r.pick(plainNames)
				dup := false
				for _, k := range t.keys {
					if k == name {
						dup = true
					}
				}
				if !dup {
					t.keys = append(t.keys, name)
					t.vals = append(t.vals, genValue(r, c, 2))
				}
			}
		case 2:
			if t.kind == kArr && len(t.arr) > 0 {
				i := r.n(len(t.arr))
				t.arr[i] = genValue(r, c, 2)
			}
		case 3:
			if t.kind == kObj && len(t.keys) > 1 {
				i, j := r.n(len(t.keys)), r.n(len(t.keys))
				t.keys[i], t.keys[j] = t.keys[j], t.keys[i]
				t.vals[i], t.vals[j] = t.vals[j], t.vals[i]
			}
		case 4:
			if t.kind == kObj && len(t.keys) > 0 {
				i := r.n(len(t.keys))
				t.vals[i] = genValue(r, c, 2)
			}
		default:
			if t.kind == kArr {
				t.arr = append(t.arr, genValue(r, c, 2))
			}
		}
	}
	return w
}

func streamEqual(r *rng, n int, pfx string) {
	for i := 0; i < n; i++ {
		c := cfgFor(r)
		if r.chance(1, 6) {
			// repeated member names: WHICH value such a text denotes is left open (the verdict is `unspec`), but Equal
			// must still be symmetric and reflexive on it ("all pairs of byte strings")
			c.dups = true
			c.plain = false
			c.maxMember = 5
		}
		var a *jv
		if r.chance(1, 5) {
			a = genValue(r, c, 0)
		} else {
			a = genContainer(r, c)
		}
		var b *jv
		switch r.n(4) {
		case 0:
			b = a.clone()
		case 1:
			b = shuffleMembers(r, a.clone())
		default:
			b = mutateValue(r, a, c)
		}
		ta, tb := spell{r.n(3), r}.text(a), spell{r.n(3), r}.text(b)
		if r.chance(1, 20) {
			tb = corrupt(r, tb)
		}
		if r.chance(1, 40) {
			ta = corrupt(r, ta)
		}
		sa, sb := append([]byte(nil), ta...), append([]byte(nil), tb...)
		res := callEqual(ta, tb)
		res2 := callEqual(tb, ta)
		mut := ""
		if !bytes.Equal(sa, ta) || !bytes.Equal(sb, tb) {
			mut = " mut=1"
		}
		emit("EQUAL %s%da %s %s => %s%s sym=%s refl=%s", pfx, i, hx(ta), hx(tb), res, mut, res2, callEqual(ta, append([]byte(nil), ta...)))
		emit("EQUAL %s%db %s %s => %s%s sym=%s refl=%s", pfx, i, hx(tb), hx(ta), res2, mut, res, callEqual(tb, append([]byte(nil), tb...)))
	}
}

func shuffleMembers(r *rng, v *jv) *jv {
	if v.kind == kObj {
		for i := len(v.keys) - 1; i > 0; i-- {
			j := r.n(i + 1)
			v.keys[i], v.keys[j] = v.keys[j], v.keys[i]
			v.vals[i], v.vals[j] = v.vals[j], v.vals[i]
		}
	}
	for _, x := range v.arr {
		shuffleMembers(r, x)
	}
	for _, x := range v.vals {
		shuffleMembers(r, x)
	}
	return v
}

// a merge patch derived from the document: touches existing members, deletes, nests
func genMergePatch(r *rng, doc *jv, c genCfg, depth int) *jv {
	if doc.kind != kObj || r.chance(1, 8) {
		return genValue(r, c, 1)
	}
	p := &jv{kind: kObj}
	add := func(k string, v *jv) {
		for _, x := range p.keys {
			if x == k {
				return
			}
		}
		p.keys = append(p.keys, k)
		p.vals = append(p.vals, v)
	}
	for i, k := range doc.keys {
		switch r.n(7) {
		case 0:
			add(k, jnull())
		case 1:
			add(k, genValue(r, c, 2))
		case 2:
			if depth < 3 {
				add(k, genMergePatch(r, doc.vals[i], c, depth+1))
			}
		case 3:
			// the member sent back exactly as the document has it (clients do): merging is NOT the identity when the
			// value holds null members
			add(k, doc.vals[i].clone())
		}
	}
	for j := r.n(3); j > 0; j-- {
		name := r.pick(plainNames)
		if !c.plain && r.chance(1, 4) {
			name = r.pick(namePool)
		}
		v := genValue(r, c, 2)
		if r.chance(1, 5) {
			v = jnull()
		}
		add(name, v)
	}
	return p
}

// v below k levels of one-member objects (a common path of nested objects, as deep as any recursion bound may sit)
func deepWrap(v *jv, k int, name string) *jv {
	for ; k > 0; k-- {
		v = &jv{kind: kObj, keys: []string{name}, vals: []*jv{v}}
	}
	return v
}

var deepLevels = []int{2, 9, 31, 32, 33, 63, 64, 65, 66, 100, 127, 128, 129, 255, 256, 257, 300}

func streamMerge(r *rng, n int, pfx string) {
	for i := 0; i < n; i++ {
		c := cfgFor(r)
		c.nullW = 2 + r.n(3)
		var d *jv
		if r.chance(1, 8) {
			d = genValue(r, c, 0)
		} else {
			d = genObj(r, c, 0)
		}
		p := genMergePatch(r, d, c, 0)
		if r.chance(1, 25) {
			k := deepLevels[r.n(len(deepLevels))]
			d, p = deepWrap(d, k, "k"), deepWrap(p, k, "k")
		}
		td, tp := spell{r.n(3), r}.text(d), spell{r.n(3), r}.text(p)
		if r.chance(1, 40) {
			tp = corrupt(r, tp)
		}
		sd, spb := append([]byte(nil), td...), append([]byte(nil), tp...)
		res := callMerge(td, tp)
		mut := ""
		if !bytes.Equal(sd, td) || !bytes.Equal(spb, tp) {
			mut = " mut=1"
		}
		emit("MERGE %s%d %s %s => %s%s", pfx, i, hx(td), hx(tp), res, mut)
	}
}

func streamCompose(r *rng, n int, pfx string) {
	for i := 0; i < n; i++ {
		c := cfgFor(r)
		c.nullW = 2 + r.n(3)
		d := genObj(r, c, 0)
		if r.chance(1, 10) {
			d = genValue(r, c, 0)
		}
		p1 := genMergePatch(r, d, c, 0)
		var mid *jv
		if b, ok := okBytes(callMerge(spell{1, r}.text(d), spell{1, r}.text(p1))); ok {
			mid, _ = parseJV(b)
		}
		if mid == nil {
			mid = d
		}
		var p2 *jv
		if r.chance(1, 2) {
			p2 = genMergePatch(r, mid, c, 0)
		} else {
			p2 = genMergePatch(r, p1, c, 0) // shaped after p1: overlaps at depth
		}
		if r.chance(1, 25) {
			k := deepLevels[r.n(len(deepLevels))]
			d, p1, p2 = deepWrap(d, k, "k"), deepWrap(p1, k, "k"), deepWrap(p2, k, "k")
		}
		if r.chance(1, 120) {
			// a nested object of P1 whose TEXT is big (just over 1 / 4 / 64 KiB: size-gated paths), met in P2 by an object
			// that only deletes (null members) or is empty, by one that also sets something, or by nothing
			fattenPair(r, p1, p2)
		}
		t1, t2, td := spell{r.n(3), r}.text(p1), spell{r.n(3), r}.text(p2), spell{r.n(3), r}.text(d)
		comb := callMergeMerge(t1, t2)
		seq := "err:-n"
		if b, ok := okBytes(callMerge(td, t1)); ok {
			seq = callMerge(b, t2)
		}
		app := "err:-n"
		if b, ok := okBytes(comb); ok {
			app = callMerge(td, b)
		}
		emit("COMPOSE %s%d %s %s %s => %s %s %s", pfx, i, hx(t1), hx(t2), hx(td), comb, seq, app)
	}
}

// see streamCompose
func fattenPair(r *rng, p1, p2 *jv) {
	if p1 == nil || p2 == nil || p1.kind != kObj || p2.kind != kObj {
		return
	}
	name := "cfg"
	var sub *jv
	for i, k := range p1.keys {
		if p1.vals[i].kind == kObj {
			name, sub = k, p1.vals[i]
			break
		}
	}
	if sub == nil {
		sub = &jv{kind: kObj, keys: []string{"other", "keep"}, vals: []*jv{{kind: kBool, b: true}, jnum("1")}}
		p1.keys, p1.vals = append(p1.keys, name), append(p1.vals, sub)
	}
	size := []int{1100, 4200, 4200, 9000, 66000}[r.n(5)]
	sub.keys = append(sub.keys, "blob")
	sub.vals = append(sub.vals, jstr(strings.Repeat(r.pick([]string{"x", "ab", "<&>", "é"}), size)))
	var q *jv
	switch r.n(4) {
	case 0:
		q = &jv{kind: kObj}
	case 1, 2:
		q = &jv{kind: kObj}
		for _, k := range sub.keys {
			if k != "blob" && r.chance(2, 3) {
				q.keys, q.vals = append(q.keys, k), append(q.vals, jnull())
			}
		}
		if r.chance(1, 2) {
			q.keys, q.vals = append(q.keys, "absent-in-p1"), append(q.vals, jnull())
		}
	default:
		q = &jv{kind: kObj, keys: []string{"other", "set"}, vals: []*jv{jnull(), jnum("2")}}
	}
	for i, k := range p2.keys {
		if k == name {
			p2.vals[i] = q
			return
		}
	}
	p2.keys, p2.vals = append(p2.keys, name), append(p2.vals, q)
}

func streamCreate(r *rng, n int, pfx string) {
	for i := 0; i < n; i++ {
		c := cfgFor(r)
		if r.chance(2, 3) {
			c.nullW = 0
		}
		var a, b *jv
		switch r.n(10) {
		case 0: // arrays of objects
			k := r.n(4)
			a, b = &jv{kind: kArr}, &jv{kind: kArr}
			for j := 0; j < k; j++ {
				x := genObj(r, c, 1)
				a.arr = append(a.arr, x)
				b.arr = append(b.arr, mutateValue(r, x, c))
			}
			if r.chance(1, 4) {
				b.arr = append(b.arr, genObj(r, c, 1))
			}
		case 1: // mismatched roots
			a, b = genValue(r, c, 0), genValue(r, c, 0)
		case 2: // equal-length arrays whose elements are NOT all objects (arrays, scalars, nulls): to be rejected
			k := 1 + r.n(3)
			a, b = &jv{kind: kArr}, &jv{kind: kArr}
			for j := 0; j < k; j++ {
				var x *jv
				switch r.n(4) {
				case 0:
					x = &jv{kind: kArr, arr: []*jv{genObj(r, c, 2)}}
				case 1:
					x = &jv{kind: kArr}
				case 2:
					x = genObj(r, c, 1)
				default:
					x = genValue(r, c, 1)
				}
				a.arr = append(a.arr, x)
				if r.chance(1, 2) {
					b.arr = append(b.arr, x.clone())
				} else {
					b.arr = append(b.arr, mutateValue(r, x, c))
				}
			}
		default:
			a = genObj(r, c, 0)
			if r.chance(1, 8) {
				b = a.clone()
			} else {
				b = mutateValue(r, a, c)
			}
			if r.chance(1, 4) {
				b = shuffleMembers(r, b)
			}
			if r.chance(1, 25) {
				k := deepLevels[r.n(len(deepLevels))]
				a, b = deepWrap(a, k, "k"), deepWrap(b, k, "k")
			}
		}
		ta, tb := spell{r.n(3), r}.text(a), spell{r.n(3), r}.text(b)
		if r.chance(1, 40) {
			tb = corrupt(r, tb)
		}
		sa, sb := append([]byte(nil), ta...), append([]byte(nil), tb...)
		pobs := callCreate(ta, tb)
		mobs := "err:-n"
		if pb, ok := okBytes(pobs); ok {
			mobs = callMerge(ta, pb)
		}
		mut := ""
		if !bytes.Equal(sa, ta) || !bytes.Equal(sb, tb) {
			mut = " mut=1"
		}
		emit("CREATE %s%d %s %s => %s %s%s", pfx, i, hx(ta), hx(tb), pobs, mobs, mut)
	}
}

func optHex(s string, err error) string {
	if err != nil {
		return "!"
	}
	return hx([]byte(s))
}

func emitDecode(id string, patch []byte) {
	res := guarded(func() string {
		p, err := jsonpatch.DecodePatch(patch)
		if err != nil {
			if p != nil {
				return "err-with-patch"
			}
			return "err"
		}
		var sb strings.Builder
		fmt.Fprintf(&sb, "ok %d", len(p))
		for _, op := range p {
			path, perr := op.Path()
			from, ferr := op.From()
			v, verr := op.ValueInterface()
			vs := "!"
			if verr == nil {
				b, merr := ijson.Marshal(v)
				if merr == nil {
					vs = hx(b)
				}
			}
			fmt.Fprintf(&sb, " %s %s %s %s", hx([]byte(op.Kind())), optHex(path, perr), optHex(from, ferr), vs)
		}
		return sb.String()
	})
	emit("DECODE %s %s => %s", id, hx(patch), res)
}

// the text with insignificant white space (every kind RFC 8259 allows: space, tab, LF, CR) in front and behind
func wsWrap(r *rng, text []byte) []byte {
	ws := func() string {
		var sb strings.Builder
		for j := r.n(4); j > 0; j-- {
			sb.WriteString(r.pick([]string{" ", "\t", "\n", "\r", "\r\n"}))
		}
		return sb.String()
	}
	return []byte(ws() + string(text) + ws())
}

func streamDecode(r *rng, n int, pfx string) {
	kinds := []string{"add", "remove", "replace", "move", "copy", "test", "Add", "delete", ""}
	vals := []string{`null`, `1`, `"s"`, `"/a"`, `true`, `[]`, `{}`, `{"a":1}`, `[1]`, `1.50`, `"add"`}
	for i := 0; i < n; i++ {
		nops := r.n(4)
		var elems []string
		for j := 0; j < nops; j++ {
			if r.chance(1, 15) {
				elems = append(elems, r.pick(vals))
				continue
			}
			var ms []string
			kind := kinds[r.n(6)]
			if r.chance(1, 8) {
				kind = r.pick(kinds)
			}
			// member names and string values (op, path, from) are JSON strings: any spelling of the same string
			// (\uXXXX escapes of ASCII letters, \/ for the solidus) is the same member and the same value
			enc := func(x string) string {
				if r.chance(1, 6) {
					return freeString(r, x)
				}
				if r.chance(1, 12) && len(x) > 0 {
					i := r.n(len(x))
					if x[i] < 0x80 && x[i] != '"' && x[i] != '\\' {
						return "\"" + x[:i] + fmt.Sprintf("\\u%04x", x[i]) + x[i+1:] + "\""
					}
				}
				return encString(x, false)
			}
			member := func(name, okv string) {
				qn := enc(name)
				switch r.n(12) {
				case 0: // absent
				case 1:
					ms = append(ms, fmt.Sprintf(`%s:null`, qn))
				case 2:
					ms = append(ms, fmt.Sprintf(`%s:%s`, qn, r.pick(vals)))
				case 3: // duplicate, last wins
					ms = append(ms, fmt.Sprintf(`%s:%s`, qn, r.pick(vals)))
					ms = append(ms, fmt.Sprintf(`%s:%s`, enc(name), okv))
				case 4: // different case
					ms = append(ms, fmt.Sprintf(`%s:%s`, encString(strings.ToUpper(name), false), okv))
				default:
					ms = append(ms, fmt.Sprintf(`%s:%s`, qn, okv))
				}
			}
			member("op", enc(kind))
			// path and from drawn from one pool, so that they are often related (equal, a character-wise
			// prefix, a proper pointer prefix, siblings): decoding must not care
			ptrs := []string{"/a", "", "/a/b", "/0", "x", "/b", "/bb", "/b/c", "/a_old", "/a/1", "/a/10", "/", "/~0", "/~1x", "/a/-"}
			member("path", enc(r.pick(ptrs)))
			if kind == "add" || kind == "replace" || kind == "test" || r.chance(1, 6) {
				member("value", r.pick(vals))
			}
			if kind == "move" || kind == "copy" || r.chance(1, 6) {
				member("from", enc(r.pick([]string{"/b", "/b", "/a", "", "/", "/a/1", "/a/b", "x", "/~0"})))
			}
			if r.chance(1, 5) {
				ms = append(ms, `"extra":[1,2]`)
			}
			if r.chance(1, 3) {
				for k := len(ms) - 1; k > 0; k-- {
					l := r.n(k + 1)
					ms[k], ms[l] = ms[l], ms[k]
				}
			}
			elems = append(elems, "{"+strings.Join(ms, ",")+"}")
		}
		text := []byte("[" + strings.Join(elems, ",") + "]")
		switch r.n(30) {
		case 0:
			text = []byte(r.pick(vals))
		case 1:
			text = corrupt(r, text)
		case 2, 3, 4, 5:
			text = wsWrap(r, text)
		}
		emitDecode(fmt.Sprintf("%s%d", pfx, i), text)
		if r.chance(1, 400) {
			emitDecode(fmt.Sprintf("%s%dL", pfx, i), longPatch(r))
		}
	}
}

// a patch document with MANY operations - lengths at and around powers of two, where chunked, batched or parallel
// processing changes its path - all well-formed except (mostly) one, placed at the head, in the middle or among
// the last few elements
func longPatch(r *rng) []byte {
	base := []int{255, 256, 1023, 1024, 2048, 4096}[r.n(6)]
	n := base + r.n(5)
	good := []string{`{"op":"add","path":"/a","value":1}`, `{"op":"remove","path":"/a"}`, `{"op":"test","path":"/b","value":null}`,
		`{"op":"move","from":"/a","path":"/b"}`, `{"op":"copy","from":"/b","path":"/a"}`, `{"op":"replace","path":"","value":{}}`}
	bad := []string{`{"op":"add","path":"/k"}`, `{"op":"replace","path":7,"value":1}`, `{"op":"move","path":"/a"}`, `{"op":"copy","from":null,"path":"/a"}`,
		`{"op":"frob","path":"/a"}`, `{"path":"/a","value":1}`, `{"Op":"add","path":"/a","value":1}`, `null`, `7`, `{"op":"test","path":"/a"}`}
	elems := make([]string, n)
	for i := range elems {
		elems[i] = good[r.n(len(good))]
	}
	if !r.chance(1, 5) {
		at := []int{0, n / 2, n - 1, n - 2, n - 3, 4 * (n / 4), 8*(n/8) + 1, r.n(n)}[r.n(8)]
		if at >= n {
			at = n - 1
		}
		elems[at] = bad[r.n(len(bad))]
	}
	return []byte("[" + strings.Join(elems, ",") + "]")
}

// ---------- malformed texts ----------

var handMade = []string{"", " ", "{", "}", "[", "]", "\"", "1x", "01", "-", "1.", "1e", ".5", "tru", "nul", "[1,]", "{\"a\"}",
	"{\"a\":}", "{,}", "[,]", "\"\\x\"", "\"\\u12\"", "\"\x01\"", "\"a\xffb\"", "[1 2]", "{\"a\":1,}", "nulll", "true false",
	"\ufeff[]", "[]\x00", "\v[]", "\f1", "[1]x", "{\"a\":1}{", "'a'", "{a:1}", "+1", "0x10", "1e+", "-0", "0e0", "1E-2",
	"\"\\ud800\"", "\"\\udc00\\ud800\"", "[\"\\/\"]", " [1] ", "\t{\"a\" :\r\n1 } ", "null", "false", "\"s\"", "2", "[null]",
	"{\"\":null}", "[[[]]]", "{\"a\":{\"a\":{}}}", "-1.5E+10", "\"\\u0000\"", "\"\\u2028\"", "1 ", " 1", "[\n]", "{\n}",
	"\"\\'\"", "\"\\a\"", "[1,,2]", "[1,2", "{\"a\":1", "\"abc", "00", "-01", "1.e1", "1.0e", "--1", "truee", "tr", "n", "f",
	"{\"a\":1,\"a\":2}", "[\"\xe2\x80\xa8\"]", "[\"<>&\"]"}

func init() {
	// escaped surrogates around every boundary of the pairing arithmetic, and lone ones
	his := []string{"d7ff", "d800", "d801", "dbff", "dc00", "D83D"}
	los := []string{"dbff", "dc00", "dc01", "dfff", "e000", "0041", "DC00"}
	for _, h := range his {
		handMade = append(handMade, "\"\\u"+h+"\"", "[\"\\u"+h+"x\"]")
		for _, l := range los {
			handMade = append(handMade, "\"\\u"+h+"\\u"+l+"\"", "{\"\\u"+h+"\\u"+l+"\":\"\\u"+h+"\\u"+l+"\"}")
		}
	}
}

func nest(open, cl string, n int) []byte {
	return []byte(strings.Repeat(open, n) + strings.Repeat(cl, n))
}

func corrupt(r *rng, t []byte) []byte {
	b := append([]byte(nil), t...)
	if len(b) == 0 {
		return []byte{byte(r.n(256))}
	}
	switch r.n(7) {
	case 0:
		return b[:r.n(len(b))]
	case 1:
		i := r.n(len(b))
		return append(b[:i:i], b[i+1:]...)
	case 2:
		i := r.n(len(b) + 1)
		c := []byte(" \t\n\r{}[]:,\"\\0123456789-+.eEtrufalsn/x\x00\x1f\x7f\x80\xe2\xff")
		ins := c[r.n(len(c))]
		return append(b[:i:i], append([]byte{ins}, b[i:]...)...)
	case 3:
		i := r.n(len(b))
		b[i] = byte(r.n(256))
		return b
	case 4:
		i := r.n(len(b))
		return append(b[:i+1:i+1], b[i:]...)
	case 5:
		return append(b, []byte(r.pick([]string{"x", "]", "}", ",", " 1", "\x00"}))...)
	default:
		i, j := r.n(len(b)), r.n(len(b))
		b[i], b[j] = b[j], b[i]
		return b
	}
}

var deepTexts = false

func genText(r *rng) []byte {
	k := r.n(100)
	switch {
	case k < 20:
		return []byte(r.pick(handMade))
	case k < 50:
		c := cfgFor(r)
		return spell{r.n(3), r}.text(genValue(r, c, 0))
	case k < 52:
		d := []int{9999, 10000, 10001}[r.n(3)]
		if !deepTexts {
			// the quadratic entry points take seconds on the deepest texts: keep those rare
			d = []int{50, 300, 1200}[r.n(3)]
			if r.chance(1, 400) {
				d = []int{9999, 10000, 10001}[r.n(3)]
			}
		}
		// the innermost container is empty or holds a scalar (a leaf inside the deepest legal container is NOT one level more)
		leaf := r.pick([]string{"", "", "1", `"s"`, "true", "null", "1,2"})
		if r.chance(1, 2) {
			return []byte(strings.Repeat("[", d) + leaf + strings.Repeat("]", d))
		}
		inner := "[" + leaf + "]"
		if r.chance(1, 2) && leaf != "" && leaf != "1,2" {
			inner = `{"k":` + leaf + `}`
		}
		return []byte(strings.Repeat("{\"a\":", d-1) + inner + strings.Repeat("}", d-1))
	default:
		c := cfgFor(r)
		t := spell{r.n(3), r}.text(genValue(r, c, 0))
		for j := 1 + r.n(2); j > 0; j-- {
			t = corrupt(r, t)
		}
		return t
	}
}

// the nesting boundary, exhaustively for a small family of texts: depths 9999 / 10000 / 10001, arrays and objects, the
// innermost container empty or holding a scalar, a pair of scalars or one member: every entry point (ENTRY) and the codec (VALID)
func streamDeep() {
	i := 0
	for _, d := range []int{9999, 10000, 10001} {
		for _, leaf := range []string{"1", `"s"`} {
			texts := []string{strings.Repeat("[", d) + leaf + strings.Repeat("]", d),
				strings.Repeat("{\"a\":", d-1) + "[" + leaf + "]" + strings.Repeat("}", d-1)}
			if leaf == "1" {
				texts = []string{strings.Repeat("{\"a\":", d-1) + `{"k":` + leaf + `}` + strings.Repeat("}", d-1)}
			} else {
				texts = texts[:1]
			}
			for _, t := range texts {
				emitEntry(fmt.Sprintf("deep-n%d", i), []byte(t))
				i++
			}
		}
	}
}

func acc(f func() error) byte {
	s := guarded(func() string {
		if f() == nil {
			return "1"
		}
		return "0"
	})
	if s == "1" || s == "0" {
		return s[0]
	}
	return 'p'
}

func emitValid(id string, t []byte) {
	var bits []byte
	bits = append(bits, acc(func() error {
		if ijson.Valid(t) {
			return nil
		}
		return errors.New("invalid")
	}))
	bits = append(bits, acc(func() error { var b bytes.Buffer; return ijson.Compact(&b, t) }))
	bits = append(bits, acc(func() error { var b bytes.Buffer; return ijson.Indent(&b, t, "", " ") }))
	bits = append(bits, acc(func() error { var v interface{}; return ijson.Unmarshal(t, &v) }))
	bits = append(bits, acc(func() error {
		if stdValid(t) {
			return nil
		}
		return errors.New("invalid")
	}))
	emit("VALID %s %s => %s", id, hx(t), string(bits))
}

func emitEntry(id string, t []byte) {
	empty := []byte("{}")
	var bits []byte
	bits = append(bits, acc(func() error { _, err := jsonpatch.Patch{}.Apply(t); return err }))
	bits = append(bits, acc(func() error { _, err := jsonpatch.MergePatch(t, empty); return err }))
	bits = append(bits, acc(func() error { _, err := jsonpatch.MergePatch(empty, t); return err }))
	bits = append(bits, acc(func() error { _, err := jsonpatch.MergeMergePatches(t, empty); return err }))
	bits = append(bits, acc(func() error { _, err := jsonpatch.CreateMergePatch(t, t); return err }))
	bits = append(bits, acc(func() error {
		if jsonpatch.Equal(t, t) {
			return nil
		}
		return errors.New("unequal")
	}))
	bits = append(bits, acc(func() error { _, err := jsonpatch.DecodePatch(t); return err }))
	bits = append(bits, acc(func() error { _, err := jsonpatch.CreateMergePatch(empty, t); return err }))
	bits = append(bits, acc(func() error { _, err := jsonpatch.CreateMergePatch(t, empty); return err }))
	emit("ENTRY %s %s => %s", id, hx(t), string(bits))
}

func streamValid(r *rng, n int, pfx string) {
	for i := 0; i < n; i++ {
		t := genText(r)
		emitValid(fmt.Sprintf("%s%d", pfx, i), t)
	}
}

func streamEntry(r *rng, n int, pfx string) {
	for i := 0; i < n; i++ {
		t := genText(r)
		if len(t) > 3000 && r.chance(3, 4) {
			t = []byte(r.pick(handMade))
		}
		if r.chance(1, 4) {
			// a well-formed patch document, with whitespace around
			c := genApplyCase(r, cfgFor(r), aopts{neg: true}, 0, r.n(3), 3)
			t = []byte(r.pick([]string{"", " ", "\n"}) + string(c.patch) + r.pick([]string{"", " ", "\r\n"}))
		}
		emitEntry(fmt.Sprintf("%s%d", pfx, i), t)
	}
}

// all byte strings up to length k over a small alphabet
func streamValidExhaustive(k int) {
	alpha := []byte("[]{}\":,1-0.e t\\u")
	var rec func(cur []byte, depth int)
	idx := 0
	rec = func(cur []byte, depth int) {
		emitValid(fmt.Sprintf("x%d", idx), cur)
		idx++
		if depth == k {
			return
		}
		for _, c := range alpha {
			rec(append(append([]byte(nil), cur...), c), depth+1)
		}
	}
	rec(nil, 0)
}

// C04: every entry point on arbitrary bytes; the ordinary protocol lines are reused so the
// model is compared too
func streamBytes(r *rng, n int, pfx string) {
	for i := 0; i < n; i++ {
		id := fmt.Sprintf("%s%d", pfx, i)
		a, b := genText(r), genText(r)
		if len(a) > 3000 && len(b) > 3000 {
			b = []byte("[]")
		}
		switch r.n(7) {
		case 0:
			emit("EQUAL %s %s %s => %s", id, hx(a), hx(b), callEqual(a, b))
		case 1:
			emit("MERGE %s %s %s => %s", id, hx(a), hx(b), callMerge(a, b))
		case 2:
			pobs := callCreate(a, b)
			mobs := "err:-n"
			if pb, ok := okBytes(pobs); ok {
				mobs = callMerge(a, pb)
			}
			emit("CREATE %s %s %s => %s %s", id, hx(a), hx(b), pobs, mobs)
		case 3:
			emitDecode(id, a)
		case 4:
			emitEntry(id, a)
		default:
			// awkward but well-formed: null roots, nulls in arrays, empty keys, root replacement
			o := randOpts(r)
			docs := []string{"null", "[null]", "{\"\":null}", "[[null]]", "{\"a\":[null,{\"\":1}]}", "1", "\"s\"", " [1]", "{}", "[]", string(a)}
			doc := []byte(r.pick(docs))
			var ops []opSpec
			root := []string{"null", "[]", "{}", "[null]", "1", "{\"a\":null}"}
			for j := r.n(4); j >= 0; j-- {
				switch r.n(6) {
				case 0:
					v, _ := parseJV([]byte(r.pick(root)))
					ops = append(ops, opSpec{op: r.pick([]string{"replace", "add"}), path: "", value: v})
				case 1:
					ops = append(ops, opSpec{op: "test", path: r.pick([]string{"", "/a", "/0", "/a/0", "/"})})
				case 2:
					// paths that make EnsurePathExistsOnAdd look at the current container as an array (index
					// arithmetic on a root that an earlier operation may have replaced by null or a scalar)
					v, _ := parseJV([]byte(r.pick([]string{"1", "null", "{}", "[]"})))
					ops = append(ops, opSpec{op: r.pick([]string{"add", "add", "add", "replace", "remove"}),
						path: r.pick([]string{"/1/a", "/0/0", "/3/-", "/a/1/b", "/0", "/-/x", "/2/1/0", "/-", "/1", "/a/-/0", "/00/1"}), value: v})
				default:
					v, _ := parseJV([]byte(`{"a":[null]}`))
					ops = append(ops, genOp(r, v, cfgFor(r)))
				}
			}
			c := acase{o: o, doc: doc, ops: ops, patch: spell{r.n(3), r}.patchText(ops)}
			if r.chance(1, 6) {
				c.patch = b
			}
			if r.chance(1, 8) {
				c.indent = r.pick([]string{" ", "\t", "x", "\n"})
			}
			emitApply(id, c)
		}
	}
}

func main() {
	out = bufio.NewWriterSize(os.Stdout, 1<<20)
	defer out.Flush()
	if len(os.Args) < 2 {
		fmt.Fprintln(os.Stderr, "usage: harness <stream> [seed] [n]")
		os.Exit(2)
	}
	stream := os.Args[1]
	if stream == "coldchild" {
		coldChild(os.Args[2:])
		return
	}
	seed, n := uint64(1), 100
	if len(os.Args) > 2 {
		s, _ := strconv.ParseUint(os.Args[2], 10, 64)
		seed = s
	}
	if len(os.Args) > 3 {
		n, _ = strconv.Atoi(os.Args[3])
	}
	// scramble the seed (splitmix finaliser) so that neighbouring seeds give unrelated streams
	z := seed + 0x632be59bd9b4e019*uint64(len(stream)+1)
	z = (z ^ (z >> 30)) * 0xbf58476d1ce4e5b9
	z = (z ^ (z >> 27)) * 0x94d049bb133111eb
	r := &rng{s: z ^ (z >> 31)}
	pfx := stream + strconv.FormatUint(seed, 10) + "-"
	switch stream {
	case "apply":
		streamApply(r, n, pfx)
	case "ensure":
		streamEnsure(r, n, pfx)
	case "limit":
		streamLimit(r, n, pfx)
	case "allow":
		streamAllow(r, n, pfx)
	case "testtr":
		streamTestTr(r, n, pfx)
	case "equal":
		streamEqual(r, n, pfx)
	case "merge":
		streamMerge(r, n, pfx)
	case "compose":
		streamCompose(r, n, pfx)
	case "create":
		streamCreate(r, n, pfx)
	case "decode":
		streamDecode(r, n, pfx)
	case "valid":
		deepTexts = true
		streamValid(r, n, pfx)
	case "validx":
		streamValidExhaustive(n)
	case "entry":
		streamEntry(r, n, pfx)
	case "deep":
		streamDeep()
	case "bytes":
		streamBytes(r, n, pfx)
	case "scan":
		out.Flush()
		ijson.VerifScanTable(os.Stdout)
	case "codec":
		streamCodec(r, n, pfx)
		streamDec(&rng{s: r.next()}, n, pfx+"d")
	case "dec":
		streamDec(r, n, pfx)
	case "typed":
		streamTyped(r, n, pfx)
	case "float":
		streamFloat(r, n, pfx)
	case "typeddec":
		streamTypedDec(r, n, pfx)
	case "std":
		streamStd(r, n, pfx)
	case "streamprog":
		streamProg(r, n, pfx, seed%1000 == 0)
	case "hist":
		streamHist(r, n, pfx)
	case "conc":
		streamConc(r, n, pfx)
	case "cold":
		streamCold(r, n, pfx)
	case "cli":
		streamCli(r, n, pfx)
	case "corpus":
		streamCorpus()
	case "replay":
		replay()
	case "index":
		streamIndex()
	case "lindex":
		streamLIndex()
	case "e2x":
		streamE2(int(seed), n)
	case "small":
		// seed = shard index, n = number of shards
		streamSmall(int(seed), n)
	case "legacy-apply", "legacy-merge", "legacy-create", "legacy-compose", "legacy-equal", "legacy-bytes", "legacy-limit":
		streamLegacy(stream, r, n, pfx)
	default:
		fmt.Fprintln(os.Stderr, "unknown stream", stream)
		os.Exit(2)
	}
}
