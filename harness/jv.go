package main

// Ordered JSON values with explicit spelling control, a splitmix64 PRNG, a reader that
// keeps member order and number literals, and RFC 6901 pointer enumeration.

import (
	"bytes"
	stdjson "encoding/json"
	"fmt"
	"io"
	"strconv"
	"strings"
	"unicode/utf8"
)

type rng struct{ s uint64 }

func (r *rng) next() uint64 {
	r.s += 0x9e3779b97f4a7c15
	z := r.s
	z = (z ^ (z >> 30)) * 0xbf58476d1ce4e5b9
	z = (z ^ (z >> 27)) * 0x94d049bb133111eb
	return z ^ (z >> 31)
}
func (r *rng) n(k int) int {
	if k <= 0 {
		return 0
	}
	return int(r.next() % uint64(k))
}
func (r *rng) chance(num, den int) bool { return r.n(den) < num }
func (r *rng) pick(xs []string) string  { return xs[r.n(len(xs))] }

const (
	kNull = iota
	kBool
	kNum
	kStr
	kArr
	kObj
)

type jv struct {
	kind int
	b    bool
	lit  string // number literal
	s    string // decoded string
	arr  []*jv
	keys []string
	vals []*jv
}

func jnull() *jv          { return &jv{kind: kNull} }
func jnum(l string) *jv   { return &jv{kind: kNum, lit: l} }
func jstr(s string) *jv   { return &jv{kind: kStr, s: s} }
func (v *jv) isCon() bool { return v.kind == kArr || v.kind == kObj }

func (v *jv) clone() *jv {
	c := *v
	c.arr = nil
	c.keys = append([]string(nil), v.keys...)
	c.vals = nil
	for _, x := range v.arr {
		c.arr = append(c.arr, x.clone())
	}
	for _, x := range v.vals {
		c.vals = append(c.vals, x.clone())
	}
	return &c
}

func (v *jv) size() int {
	n := 1
	for _, x := range v.arr {
		n += x.size()
	}
	for _, x := range v.vals {
		n += x.size()
	}
	return n
}

var namePool = []string{"a", "b", "c", "d", "foo", "bar", "a/b", "m~n", "~0", "~1", "0", "1", "2", "-", "01",
	"<k&>", "k ", "é", "😀", "x y", "q\"t", "b\\s", "", "-1", "10", "rate%d", "%v", "100% sure", "%w", "%", "\foo", "b\bk", "c\x01d", "\x7fdel", "v\vt", "\U000e0001tag", "\xe2\x80bad", "\x1b"}
var plainNames = []string{"a", "b", "c", "d", "e", "foo", "bar", "baz", "k1", "k2", "p%s"}
var numPool = []string{"0", "-0", "1", "2", "3", "1.0", "1e400", "1E+2", "12345678901234567890123", "-1.5e-3", "10",
	"100", "2.50", "0.1", "-7", "1e2", "100.0", "0.10", "9007199254740993", "9007199254740992", "0.10000000000000001", "1e-400", "2e-400",
	"0.30000000000000004", "0.30000000000000005", "9007199254740992.0", "16777217", "16777216"}
var strPool = []string{"", "s", "t", "<>&", "a\"b", "back\\slash", "tab\t", " x", "é", "😀", "line\n", "/", "~",
	"null", "0", "x<y", " ", "\x7f", "\x01", "long string with spaces",
	// code points at the encoding boundaries (UTF-8 lengths, surrogate arithmetic)
	"\u007f\u0080", "\u07ff\u0800", "\ud7ff\ue000", "\uffff", "\U00010000", "\U000103ff", "\U0001f400", "\U0010fc00", "\U0010ffff",
	"\U00020000x", "\ufffd", "\ufffd\ufffd", "x\ufffd\ufffd\ufffdy", "100%", "%s%d%v", "%!(EXTRA)", "50%% off",
	// neighbours of the byte patterns the HTML escaper looks for (E2 80 A8 / E2 80 A9)
	"\u2068", "\u2069", "\u2027", "\u202a", "\u3028", "\u20a8", "\u2028\u2029", "a\u2028", "\xe2\x80", "\xe2", "\f", "\b\f\v"}

// runs of bytes that are not UTF-8 (each decodes to U+FFFD, three bytes for one: the
// decoder's output buffer has to grow), at every small length and offset
func init() {
	for n := 1; n <= 9; n++ {
		strPool = append(strPool, strings.Repeat("\xff", n), "ab"[:n%3]+strings.Repeat("\x80", n))
	}
	// strings and names that END in a backslash or a quote (the closing quote follows an escape)
	strPool = append(strPool, "C:\\tmp\\", "\\", "x\\\\", "say \"hi\"", "\"")
	namePool = append(namePool, "dir\\", "q\"", "\\", "\ufffd", "\ufffd\ufffd")
	// member names that look like numbers to a lenient parser (bases, separators, signs, exponents)
	namePool = append(namePool, "0x1f", "0b101", "0o17", "1_000", "1e3", "+5", "007", "0X1F", " 1", "1 ", "١")
	namePool = append(namePool, "\xff\xff\xff", strings.Repeat("\xff", 5), strings.Repeat("\xfe", 6), "k"+strings.Repeat("\xc0", 8))
}

type genCfg struct {
	depth     int
	plain     bool // only plain names, no duplicate-ish names, canonical numbers
	dups      bool // repeated member names allowed (history streams: values are unspecified, purity is not)
	nullW     int  // weight of null among atoms (out of 10)
	maxMember int
}

func genValue(r *rng, c genCfg, depth int) *jv {
	k := r.n(10)
	if depth >= c.depth {
		k = r.n(6)
	}
	switch {
	case k < 6: // atom
		a := r.n(10)
		switch {
		case a < c.nullW:
			return jnull()
		case a < c.nullW+1:
			return &jv{kind: kBool, b: r.chance(1, 2)}
		case a < c.nullW+4:
			if c.plain {
				return jnum(strconv.Itoa(r.n(20)))
			}
			return jnum(r.pick(numPool))
		default:
			if c.plain {
				return jstr(r.pick([]string{"s", "t", "u", "", "x<y", "100%", "%d"}))
			}
			return jstr(r.pick(strPool))
		}
	case k < 8:
		n := r.n(c.maxMember + 1)
		v := &jv{kind: kArr}
		for i := 0; i < n; i++ {
			v.arr = append(v.arr, genValue(r, c, depth+1))
		}
		return v
	default:
		return genObj(r, c, depth)
	}
}

func genObj(r *rng, c genCfg, depth int) *jv {
	n := r.n(c.maxMember + 1)
	v := &jv{kind: kObj}
	if depth <= 1 && r.chance(1, 40) {
		// a WIDE object (thresholds on the number of members sit at 8, 16, 32, 64): atoms under the names w0, w1, …
		w := []int{7, 8, 9, 15, 16, 17, 18, 31, 32, 33, 40, 64, 65}[r.n(13)]
		for i := 0; i < w; i++ {
			v.keys = append(v.keys, fmt.Sprintf("w%d", i))
			v.vals = append(v.vals, genValue(r, c, c.depth))
		}
	}
	for i := 0; i < n; i++ {
		var name string
		if c.plain || r.chance(2, 3) {
			name = r.pick(plainNames)
		} else {
			name = r.pick(namePool)
		}
		dup := false
		for _, k := range v.keys {
			if k == name {
				dup = true
			}
		}
		if dup && !(c.dups && r.chance(1, 2)) {
			continue
		}
		v.keys = append(v.keys, name)
		v.vals = append(v.vals, genValue(r, c, depth+1))
	}
	return v
}

func genContainer(r *rng, c genCfg) *jv {
	if r.chance(1, 4) {
		n := 1 + r.n(c.maxMember)
		v := &jv{kind: kArr}
		for i := 0; i < n; i++ {
			v.arr = append(v.arr, genValue(r, c, 1))
		}
		return v
	}
	v := genObj(r, c, 0)
	if len(v.keys) == 0 && r.chance(3, 4) {
		v.keys = []string{"a"}
		v.vals = []*jv{genValue(r, c, 1)}
	}
	return v
}

// ---------- printing ----------

// spelling: 0 = as Go's encoder with HTML escaping, 1 = encoder without HTML escaping,
// 2 = free (random whitespace, random escape spellings)
type spell struct {
	mode int
	r    *rng
}

func encString(s string, escHTML bool) string {
	var buf bytes.Buffer
	e := stdjson.NewEncoder(&buf)
	e.SetEscapeHTML(escHTML)
	_ = e.Encode(s)
	return strings.TrimRight(buf.String(), "\n")
}

const hexd = "0123456789abcdef"

func freeString(r *rng, s string) string {
	var sb strings.Builder
	sb.WriteByte('"')
	for i := 0; i < len(s); {
		c := s[i]
		if c < 0x80 {
			i++
			switch {
			case c == '"' || c == '\\':
				sb.WriteByte('\\')
				sb.WriteByte(c)
			case c == '/' && r.chance(1, 3):
				sb.WriteString("\\/")
			case c < 0x20:
				switch {
				case c == '\n' && r.chance(1, 2):
					sb.WriteString("\\n")
				case c == '\t' && r.chance(1, 2):
					sb.WriteString("\\t")
				case c == 8 && r.chance(1, 2):
					sb.WriteString("\\b")
				default:
					fmt.Fprintf(&sb, "\\u00%c%c", hexd[c>>4], hexd[c&15])
				}
			case r.chance(1, 8):
				if r.chance(1, 2) {
					fmt.Fprintf(&sb, "\\u00%c%c", hexd[c>>4], hexd[c&15])
				} else {
					fmt.Fprintf(&sb, "\\u00%X%X", c>>4, c&15)
				}
			default:
				sb.WriteByte(c)
			}
			continue
		}
		rn, sz := utf8.DecodeRuneInString(s[i:])
		if rn == utf8.RuneError && sz == 1 {
			sb.WriteByte(c) // invalid UTF-8 stays raw
			i++
			continue
		}
		if rn == 0xfffd && r.chance(1, 2) {
			// U+FFFD is also what every UNPAIRED surrogate escape decodes to: spell it as one (high or low, at the
			// boundaries of both ranges), so that runs of U+FFFD become runs of lone surrogates in every order
			sb.WriteString(r.pick([]string{"\\ud800", "\\udbff", "\\udc00", "\\udfff", "\\uDC01", "\\uD83D"}))
			i += sz
			continue
		}
		if r.chance(1, 4) {
			if rn >= 0x10000 {
				r1, r2 := (rn-0x10000)>>10+0xd800, (rn-0x10000)&0x3ff+0xdc00
				fmt.Fprintf(&sb, "\\u%04x\\u%04X", r1, r2)
			} else {
				fmt.Fprintf(&sb, "\\u%04x", rn)
			}
		} else {
			sb.WriteString(s[i : i+sz])
		}
		i += sz
	}
	sb.WriteByte('"')
	return sb.String()
}

func (sp spell) str(s string) string {
	switch sp.mode {
	case 0:
		return encString(s, true)
	case 1:
		return encString(s, false)
	}
	return freeString(sp.r, s)
}

func (sp spell) ws() string {
	if sp.mode != 2 || !sp.r.chance(1, 4) {
		return ""
	}
	return sp.r.pick([]string{" ", "\n", "\t", "\r", "  ", " \n "})
}

func (sp spell) print(v *jv) string {
	var sb strings.Builder
	sp.write(&sb, v)
	return sb.String()
}

func (sp spell) write(sb *strings.Builder, v *jv) {
	switch v.kind {
	case kNull:
		sb.WriteString("null")
	case kBool:
		if v.b {
			sb.WriteString("true")
		} else {
			sb.WriteString("false")
		}
	case kNum:
		sb.WriteString(v.lit)
	case kStr:
		sb.WriteString(sp.str(v.s))
	case kArr:
		sb.WriteByte('[')
		sb.WriteString(sp.ws())
		for i, x := range v.arr {
			if i > 0 {
				sb.WriteByte(',')
				sb.WriteString(sp.ws())
			}
			sp.write(sb, x)
			sb.WriteString(sp.ws())
		}
		sb.WriteByte(']')
	case kObj:
		sb.WriteByte('{')
		sb.WriteString(sp.ws())
		for i, k := range v.keys {
			if i > 0 {
				sb.WriteByte(',')
				sb.WriteString(sp.ws())
			}
			sb.WriteString(sp.str(k))
			sb.WriteString(sp.ws())
			sb.WriteByte(':')
			sb.WriteString(sp.ws())
			sp.write(sb, v.vals[i])
			sb.WriteString(sp.ws())
		}
		sb.WriteByte('}')
	}
}

func (sp spell) text(v *jv) []byte {
	s := sp.print(v)
	if sp.mode == 2 {
		s = sp.ws() + s + sp.ws()
	}
	return []byte(s)
}

// ---------- reading (order- and literal-preserving, standard library tokens) ----------

func parseJV(data []byte) (*jv, error) {
	d := stdjson.NewDecoder(bytes.NewReader(data))
	d.UseNumber()
	v, err := readJV(d)
	if err != nil {
		return nil, err
	}
	if _, err := d.Token(); err != io.EOF {
		return nil, fmt.Errorf("trailing data")
	}
	return v, nil
}

func readJV(d *stdjson.Decoder) (*jv, error) {
	t, err := d.Token()
	if err != nil {
		return nil, err
	}
	switch x := t.(type) {
	case nil:
		return jnull(), nil
	case bool:
		return &jv{kind: kBool, b: x}, nil
	case stdjson.Number:
		return jnum(string(x)), nil
	case string:
		return jstr(x), nil
	case stdjson.Delim:
		if x == '[' {
			v := &jv{kind: kArr}
			for d.More() {
				e, err := readJV(d)
				if err != nil {
					return nil, err
				}
				v.arr = append(v.arr, e)
			}
			_, err := d.Token()
			return v, err
		}
		if x == '{' {
			v := &jv{kind: kObj}
			for d.More() {
				kt, err := d.Token()
				if err != nil {
					return nil, err
				}
				k, ok := kt.(string)
				if !ok {
					return nil, fmt.Errorf("key")
				}
				e, err := readJV(d)
				if err != nil {
					return nil, err
				}
				v.keys = append(v.keys, k)
				v.vals = append(v.vals, e)
			}
			_, err := d.Token()
			return v, err
		}
	}
	return nil, fmt.Errorf("unexpected token")
}

// ---------- pointers ----------

func encTok(s string) string {
	return strings.ReplaceAll(strings.ReplaceAll(s, "~", "~0"), "/", "~1")
}

type loc struct {
	ptr string
	v   *jv
}

// every location of the document, root first
func locations(v *jv, prefix string, out *[]loc) {
	*out = append(*out, loc{prefix, v})
	switch v.kind {
	case kArr:
		for i, x := range v.arr {
			locations(x, prefix+"/"+strconv.Itoa(i), out)
		}
	case kObj:
		for i, k := range v.keys {
			locations(v.vals[i], prefix+"/"+encTok(k), out)
		}
	}
}
