package main

// Replay mode: reads protocol lines from stdin (anything from `=>` on is ignored),
// re-executes each request against the real library and prints the full line again.

import (
	"bufio"
	"bytes"
	"encoding/hex"
	"fmt"
	"os"
	"strconv"
	"strings"

	ijson "github.com/evanphx/json-patch/v5/internal/json"
)

func unhx(s string) []byte {
	if s == "-" {
		return []byte{}
	}
	b, err := hex.DecodeString(s)
	if err != nil {
		return nil
	}
	return b
}

func parseFlags(f string, limit string) aopts {
	o := aopts{}
	if len(f) == 4 {
		o.neg, o.allow, o.ensure, o.esc = f[0] == '1', f[1] == '1', f[2] == '1', f[3] == '1'
	}
	o.limit, _ = strconv.ParseInt(limit, 10, 64)
	return o
}

// the element texts of a JSON array (well-formed input assumed)
func splitArray(t []byte) []string {
	t = bytes.TrimSpace(t)
	if len(t) < 2 || t[0] != '[' {
		return nil
	}
	var out []string
	depth, start, inStr, esc := 0, 1, false, false
	for i := 1; i < len(t)-1; i++ {
		c := t[i]
		if inStr {
			if esc {
				esc = false
			} else if c == '\\' {
				esc = true
			} else if c == '"' {
				inStr = false
			}
			continue
		}
		switch c {
		case '"':
			inStr = true
		case '[', '{':
			depth++
		case ']', '}':
			depth--
		case ',':
			if depth == 0 {
				out = append(out, string(t[start:i]))
				start = i + 1
			}
		}
	}
	if strings.TrimSpace(string(t[start:len(t)-1])) != "" {
		out = append(out, string(t[start:len(t)-1]))
	}
	return out
}

func replay() {
	sc := bufio.NewScanner(os.Stdin)
	sc.Buffer(make([]byte, 1<<20), 1<<28)
	for sc.Scan() {
		line := sc.Text()
		if i := strings.Index(line, " =>"); i >= 0 {
			line = line[:i]
		}
		f := strings.Fields(line)
		if len(f) < 2 {
			continue
		}
		id := f[1]
		switch f[0] {
		case "APPLY":
			if len(f) != 7 {
				continue
			}
			c := acase{o: parseFlags(f[2], f[3]), indent: string(unhx(f[4])), doc: unhx(f[5]), patch: unhx(f[6])}
			obs := callApply(c.o, c.indent, c.doc, c.patch)
			extra := ""
			if strings.HasPrefix(obs, "err:") {
				elems := splitArray(c.patch)
				for k := 1; k <= len(elems) && len(elems) > 1; k++ {
					res := callApply(c.o, "", c.doc, []byte("["+strings.Join(elems[:k], ",")+"]"))
					if !strings.HasPrefix(res, "ok:") {
						extra += " trunc=" + res
						break
					}
				}
			}
			if c.indent != "" {
				extra += " plain=" + callApply(c.o, "", c.doc, c.patch)
			}
			emit("APPLY %s %s %d %s %s %s => %s%s", id, c.o.flags(), c.o.limit, hx([]byte(c.indent)), hx(c.doc), hx(c.patch), obs, extra)
		case "ALLOW":
			if len(f) != 5 {
				continue
			}
			allowLine(id, parseFlags(f[2], "0"), unhx(f[3]), splitArray(unhx(f[4])))
		case "TESTTR":
			if len(f) != 6 {
				continue
			}
			o := parseFlags(f[2], "0")
			d, p1, p2 := unhx(f[3]), unhx(f[4]), unhx(f[5])
			emit("TESTTR %s %s %s %s %s => %s %s", id, o.flags(), hx(d), hx(p1), hx(p2), callApply(o, "", d, p1), callApply(o, "", d, p2))
		case "EQUAL":
			a, b := unhx(f[2]), unhx(f[3])
			emit("EQUAL %s %s %s => %s", id, hx(a), hx(b), callEqual(a, b))
		case "MERGE":
			a, b := unhx(f[2]), unhx(f[3])
			emit("MERGE %s %s %s => %s", id, hx(a), hx(b), callMerge(a, b))
		case "COMPOSE":
			t1, t2, td := unhx(f[2]), unhx(f[3]), unhx(f[4])
			comb := callMergeMerge(t1, t2)
			seq := "err:-n"
			if b, ok := okBytes(callMerge(td, t1)); ok {
				seq = callMerge(b, t2)
			}
			app := "err:-n"
			if b, ok := okBytes(comb); ok {
				app = callMerge(td, b)
			}
			emit("COMPOSE %s %s %s %s => %s %s %s", id, hx(t1), hx(t2), hx(td), comb, seq, app)
		case "CREATE":
			a, b := unhx(f[2]), unhx(f[3])
			pobs := callCreate(a, b)
			mobs := "err:-n"
			if pb, ok := okBytes(pobs); ok {
				mobs = callMerge(a, pb)
			}
			emit("CREATE %s %s %s => %s %s", id, hx(a), hx(b), pobs, mobs)
		case "DECODE":
			emitDecode(id, unhx(f[2]))
		case "VALID":
			emitValid(id, unhx(f[2]))
		case "ENTRY":
			emitEntry(id, unhx(f[2]))
		case "CODEC":
			if len(f) == 6 && f[2] == "typeddec" {
				replayTypedDec(id, f[3], unhx(f[4]), unhx(f[5]))
				continue
			}
			if len(f) == 6 && f[2] == "typed" {
				replayTyped(id, f[3], unhx(f[4]), unhx(f[5]))
				continue
			}
			if len(f) != 5 {
				continue
			}
			replayCodec(id, f[2], unhx(f[3]), unhx(f[4]))
		case "STREAM":
			replayStream(id, f)
		case "FLOAT":
			// FLOAT id enc bits pattern quoted | FLOAT id dec bits literal
			if len(f) >= 6 && f[2] == "enc" {
				bits, _ := strconv.Atoi(f[3])
				pat, _ := strconv.ParseUint(f[4], 16, 64)
				emitFloatEnc(id, bits, pat, f[5] == "1")
			} else if len(f) >= 5 && f[2] == "dec" {
				bits, _ := strconv.Atoi(f[3])
				emitFloatDec(id, bits, string(unhx(f[4])))
			}
		case "CLI":
			// CLI id pkg stdin n files…
			if len(f) < 5 {
				continue
			}
			pkg := f[2]
			stdin := unhx(f[3])
			n, _ := strconv.Atoi(f[4])
			if len(f) < 5+n {
				continue
			}
			bin := os.Getenv("JP_CLI_V5")
			if pkg == "v4" {
				bin = os.Getenv("JP_CLI_V4")
			}
			dir, err := os.MkdirTemp(os.Getenv("JP_SCRATCH"), "clireplay")
			if err != nil || bin == "" {
				continue
			}
			var args, fields []string
			var texts [][]byte
			missing := false
			for k := 0; k < n; k++ {
				name := fmt.Sprintf("%s/p%d.json", dir, k)
				if f[5+k] == "MISSING" {
					args = append(args, "-p", name+".absent")
					fields = append(fields, "MISSING")
					missing = true
					continue
				}
				t := unhx(f[5+k])
				os.WriteFile(name, t, 0o644)
				args = append(args, "-p", name)
				fields = append(fields, hx(t))
				texts = append(texts, t)
			}
			emitCli(id, pkg, bin, stdin, args, fields, texts, missing)
			os.RemoveAll(dir)
		case "LAPPLY":
			neg := f[2] == "1"
			limit, _ := strconv.ParseInt(f[3], 10, 64)
			emitLApply(id, neg, limit, unhx(f[4]), unhx(f[5]), nil)
		case "LEQUAL":
			a, b := unhx(f[2]), unhx(f[3])
			emit("LEQUAL %s %s %s => %s", id, hx(a), hx(b), callLEqual(a, b))
		case "LMERGE":
			a, b := unhx(f[2]), unhx(f[3])
			emit("LMERGE %s %s %s => %s", id, hx(a), hx(b), callLMerge(a, b))
		case "LCREATE":
			a, b := unhx(f[2]), unhx(f[3])
			pobs := callLCreate(a, b)
			mobs := "err:-n"
			if pb, ok := okBytes(pobs); ok {
				mobs = callLMerge(a, pb)
			}
			emit("LCREATE %s %s %s => %s %s", id, hx(a), hx(b), pobs, mobs)
		case "LCOMPOSE":
			t1, t2, td := unhx(f[2]), unhx(f[3]), unhx(f[4])
			comb := callLMergeMerge(t1, t2)
			seq := "err:-n"
			if b, ok := okBytes(callLMerge(td, t1)); ok {
				seq = callLMerge(b, t2)
			}
			app := "err:-n"
			if b, ok := okBytes(comb); ok {
				app = callLMerge(td, b)
			}
			emit("LCOMPOSE %s %s %s %s => %s %s %s", id, hx(t1), hx(t2), hx(td), comb, seq, app)
		default:
			fmt.Fprintln(os.Stderr, "replay: cannot re-run", f[0])
		}
	}
}

func replayCodec(id, fn string, a1, a2 []byte) {
	var res string
	switch fn {
	case "compact":
		res = guarded(func() string { var b bytes.Buffer; err := ijson.Compact(&b, a2); return codecObs(b.Bytes(), err) })
	case "indent":
		res = guarded(func() string {
			var b bytes.Buffer
			err := ijson.Indent(&b, a2, "", string(a1))
			return codecObs(b.Bytes(), err)
		})
	case "htmlescape":
		res = guarded(func() string { var b bytes.Buffer; ijson.HTMLEscape(&b, a2); return codecObs(b.Bytes(), nil) })
	case "compactesc":
		// compact(dst, src, escape = true), reached through MarshalEscaped of a raw message
		res = guarded(func() string { return codecObs(ijson.MarshalEscaped(ijson.RawMessage(a2), true)) })
	case "roundtrip":
		res = guarded(func() string {
			var v interface{}
			if err := ijson.Unmarshal(a2, &v); err != nil {
				return "err:-n"
			}
			return codecObs(ijson.MarshalEscaped(v, string(a1) == "1"))
		})
	case "keys":
		res = guarded(func() string {
			var m map[string]interface{}
			keys, err := ijson.UnmarshalWithKeys(a2, &m)
			if err != nil {
				return "err:-n"
			}
			if keys == nil {
				keys = []string{}
			}
			return codecObs(ijson.Marshal(keys))
		})
	case "quote":
		res = guarded(func() string { return codecObs(ijson.MarshalEscaped(string(a2), string(a1) == "1")) })
	case "enc":
		emitEnc(id, string(a1) == "1", a2)
		return
	default:
		replayDec(id, fn, a1, a2)
		return
	}
	emit("CODEC %s %s %s %s => %s", id, fn, hx(a1), hx(a2), res)
}
