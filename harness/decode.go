package main

// CODEC dec-*: the reflective decoder (decodeState.value/array/object/literalStore and the
// *Interface fast paths) on the target shapes the library uses, against the model JP/Codec/Decode.lean.
//
//	CODEC <id> dec-<shape> <mode> <text> => ok:<hex of rendering> | panic
//
// mode: 'c' UnmarshalWithKeys, 'v' UnmarshalValidWithKeys, 'C' Unmarshal, 'V' UnmarshalValid.
// rendering: "V <value> K <keys>" (K - for the variants that return no keys) or "E <error> V <partial value>".
// Before each call, in the same goroutine, an object with the names stale1,stale2,stale1 is decoded into a map, so
// that the pooled decodeState the call gets next has a known lastKeys leftover.

import (
	"encoding/hex"
	"errors"
	"reflect"
	"runtime"
	"sort"
	"strconv"
	"strings"

	ijson "github.com/evanphx/json-patch/v5/internal/json"
)

// what *lazyNode is to the decoder: a pointer to a struct type whose pointer implements Unmarshaler by copying
type lazyLike struct {
	raw []byte
}

func (n *lazyLike) UnmarshalJSON(data []byte) error {
	n.raw = append([]byte{}, data...)
	return nil
}

var lazyLikeType = reflect.TypeOf(lazyLike{})
var rawMessageType = reflect.TypeOf(ijson.RawMessage(nil))
var numberType = reflect.TypeOf(ijson.Number(""))

func renderDec(v reflect.Value) string {
	switch v.Kind() {
	case reflect.Ptr:
		if v.IsNil() {
			return "P"
		}
		return renderDec(v.Elem())
	case reflect.Interface:
		if v.IsNil() {
			return "z"
		}
		return renderDec(v.Elem())
	case reflect.Struct:
		if v.Type() == lazyLikeType {
			return "r" + hex.EncodeToString(v.Field(0).Bytes())
		}
		return "?struct"
	case reflect.Slice:
		if v.Type() == rawMessageType {
			return "r" + hex.EncodeToString(v.Bytes())
		}
		if v.IsNil() {
			return "S"
		}
		parts := make([]string, v.Len())
		for i := range parts {
			parts[i] = renderDec(v.Index(i))
		}
		return "[" + strings.Join(parts, ",") + "]"
	case reflect.Map:
		if v.IsNil() {
			return "M"
		}
		keys := make([]string, 0, v.Len())
		for _, k := range v.MapKeys() {
			keys = append(keys, k.String())
		}
		sort.Strings(keys)
		parts := make([]string, len(keys))
		for i, k := range keys {
			parts[i] = hex.EncodeToString([]byte(k)) + ":" + renderDec(v.MapIndex(reflect.ValueOf(k)))
		}
		return "{" + strings.Join(parts, ",") + "}"
	case reflect.String:
		if v.Type() == numberType {
			return "n" + hex.EncodeToString([]byte(v.String()))
		}
		return "s" + hex.EncodeToString([]byte(v.String()))
	case reflect.Bool:
		if v.Bool() {
			return "t"
		}
		return "f"
	}
	return "?" + v.Kind().String()
}

func renderDecErr(err error) string {
	var te *ijson.UnmarshalTypeError
	var se *ijson.SyntaxError
	switch {
	case errors.As(err, &te):
		return "type:" + te.Value + "@" + strconv.FormatInt(te.Offset, 10)
	case errors.As(err, &se):
		return "syntax"
	}
	return "other"
}

var decShapes = []string{"mapraw", "sliceraw", "patch", "any", "mapany", "string", "rawslice", "nest", "raw", "ptrraw"}

// a fresh zero target of the shape, as a pointer
func decTarget(shape string) interface{} {
	switch shape {
	case "mapraw":
		return new(map[string]*lazyLike)
	case "sliceraw":
		return new([]*lazyLike)
	case "patch":
		return new([]map[string]*ijson.RawMessage)
	case "any":
		return new(interface{})
	case "mapany":
		return new(map[string]interface{})
	case "string":
		return new(string)
	case "rawslice":
		return new([]ijson.RawMessage)
	case "nest":
		return new(map[string][]map[string]string)
	case "raw":
		return new(ijson.RawMessage)
	case "ptrraw":
		return new(*ijson.RawMessage)
	}
	return nil
}

func decObs(shape string, mode byte, text []byte, seed uint64) string {
	// exact capacity: the unchecked entry points reslice data[a:b] with b beyond len on ill-formed
	// texts, which Go allows up to the capacity (and then reads whatever the caller left there)
	exact := make([]byte, len(text))
	copy(exact, text)
	text = exact
	return guarded(func() string {
		tgt := decTarget(shape)
		if tgt == nil {
			return "err:-n"
		}
		// prime the decodeState this P will hand out next: the pool returns the state the previous
		// call on this P put back, so a decode in this goroutine leaves a known lastKeys in it
		ijson.VerifPoisonPools(1, seed)
		var prime map[string]interface{}
		if _, err := ijson.UnmarshalValidWithKeys([]byte(`{"stale1":1,"stale2":2,"stale1":3}`), &prime); err != nil {
			return "err:-n"
		}
		var keys []string
		var err error
		withKeys := true
		switch mode {
		case 'c':
			keys, err = ijson.UnmarshalWithKeys(text, tgt)
		case 'v':
			keys, err = ijson.UnmarshalValidWithKeys(text, tgt)
		case 'C':
			err, withKeys = ijson.Unmarshal(text, tgt), false
		case 'V':
			err, withKeys = ijson.UnmarshalValid(text, tgt), false
		default:
			return "err:-n"
		}
		val := renderDec(reflect.ValueOf(tgt).Elem())
		if err != nil {
			return codecObs([]byte("E "+renderDecErr(err)+" V "+val), nil)
		}
		ks := "-"
		if withKeys {
			hs := make([]string, len(keys))
			for i, k := range keys {
				hs[i] = hex.EncodeToString([]byte(k))
			}
			ks = strings.Join(hs, ",")
		}
		return codecObs([]byte("V "+val+" K "+ks), nil)
	})
}

// a value of (mostly) the given shape: "raw", "str", "any", "map:<shape>", "slice:<shape>"
func genShaped(r *rng, c genCfg, shape string, depth int) *jv {
	if r.chance(1, 12) {
		return genValue(r, c, depth) // anything, possibly ill-typed
	}
	if r.chance(1, 12) {
		return jnull()
	}
	switch {
	case shape == "str":
		return jstr(r.pick(strPool))
	case strings.HasPrefix(shape, "map:"):
		inner := shape[4:]
		v := &jv{kind: kObj}
		n := r.n(c.maxMember + 2)
		for i := 0; i < n; i++ {
			name := r.pick(plainNames)
			if !c.plain && r.chance(1, 3) {
				name = r.pick(namePool)
			}
			if len(v.keys) > 0 && r.chance(1, 6) {
				name = v.keys[r.n(len(v.keys))] // a duplicate name
			}
			v.keys = append(v.keys, name)
			v.vals = append(v.vals, genShaped(r, c, inner, depth+1))
		}
		return v
	case strings.HasPrefix(shape, "slice:"):
		inner := shape[6:]
		v := &jv{kind: kArr}
		n := r.n(c.maxMember + 2)
		for i := 0; i < n; i++ {
			v.arr = append(v.arr, genShaped(r, c, inner, depth+1))
		}
		return v
	}
	return genValue(r, c, depth)
}

var decShapeOf = map[string]string{
	"mapraw": "map:raw", "sliceraw": "slice:raw", "patch": "slice:map:raw", "any": "any", "mapany": "map:any",
	"string": "str", "rawslice": "slice:raw", "nest": "map:slice:map:str", "raw": "raw", "ptrraw": "raw",
}

func genDecText(r *rng, shape string) []byte {
	if r.chance(1, 5) {
		t := genText(r)
		if len(t) > 4000 {
			t = []byte(r.pick(handMade))
		}
		return t
	}
	c := cfgFor(r)
	t := spell{r.n(3), r}.text(genShaped(r, c, decShapeOf[shape], 0))
	if r.chance(1, 10) {
		t = corrupt(r, t)
	}
	return t
}

func streamDec(r *rng, n int, pfx string) {
	// one P: the priming decode and the observed call then share the same pool-local slot
	defer runtime.GOMAXPROCS(runtime.GOMAXPROCS(1))
	for i := 0; i < n; i++ {
		id := pfx + strconv.Itoa(i)
		shape := r.pick(decShapes)
		t := genDecText(r, shape)
		mode := "cvCV"[r.n(4)]
		if (mode == 'v' || mode == 'V') && !ijson.Valid(t) && r.chance(3, 4) {
			// the library calls the unchecked variants on validated texts only: keep the others rare
			mode = 'c'
		}
		emit("CODEC %s dec-%s %s %s => %s", id, shape, hx([]byte{mode}), hx(t), decObs(shape, mode, t, r.next()))
	}
}

func replayDec(id, fn string, a1, a2 []byte) bool {
	if !strings.HasPrefix(fn, "dec-") || len(a1) != 1 {
		return false
	}
	defer runtime.GOMAXPROCS(runtime.GOMAXPROCS(1))
	emit("CODEC %s %s %s %s => %s", id, fn, hx(a1), hx(a2), decObs(fn[4:], a1[0], a2, 1))
	return true
}
